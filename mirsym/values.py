"""Value domain of MIRSYM: scalars (python / z3), guarded-union ADTs, value-semantics Rc/Box/&, mutable refs,
sequences, strings, iterator states; merging (ite), structural equality as a z3 term."""
import z3


class Unmergeable(Exception):
    pass


class EngineError(Exception):
    """internal inconsistency / unsupported situation: the check is inconclusive (exit 2)"""
    pass


# ------------------------------------------------------------------------------------------ guards

def is_sym(x):
    return isinstance(x, z3.ExprRef)


def g_true(x):
    return x is True or (isinstance(x, z3.BoolRef) and z3.is_true(x))


def g_false(x):
    return x is False or (isinstance(x, z3.BoolRef) and z3.is_false(x))


def gnot(a):
    if a is True:
        return False
    if a is False:
        return True
    if z3.is_true(a):
        return False
    if z3.is_false(a):
        return True
    if z3.is_not(a):
        return a.arg(0)
    return z3.Not(a)


def gand(*xs):
    out = []
    for x in xs:
        if g_false(x):
            return False
        if g_true(x):
            continue
        out.append(x)
    if not out:
        return True
    if len(out) == 1:
        return out[0]
    # cheap duplicate removal
    seen, o2 = set(), []
    for x in out:
        k = x.get_id()
        if k not in seen:
            seen.add(k)
            o2.append(x)
    return o2[0] if len(o2) == 1 else z3.And(*o2)


def gor(*xs):
    out = []
    for x in xs:
        if g_true(x):
            return True
        if g_false(x):
            continue
        out.append(x)
    if not out:
        return False
    if len(out) == 1:
        return out[0]
    seen, o2 = set(), []
    for x in out:
        k = x.get_id()
        if k not in seen:
            seen.add(k)
            o2.append(x)
    return o2[0] if len(o2) == 1 else z3.Or(*o2)


def gite(c, a, b):
    """boolean if-then-else on guards"""
    if g_true(c):
        return a
    if g_false(c):
        return b
    if a is b:
        return a
    if is_sym(a) and is_sym(b) and a.get_id() == b.get_id():
        return a
    if g_true(a) and g_false(b):
        return c
    if g_false(a) and g_true(b):
        return gnot(c)
    if g_true(a):
        return gor(c, b)
    if g_false(a):
        return gand(gnot(c), b)
    if g_true(b):
        return gor(gnot(c), a)
    if g_false(b):
        return gand(c, a)
    return z3.If(c, a, b)


def to_bool(x):
    if x is True:
        return z3.BoolVal(True)
    if x is False:
        return z3.BoolVal(False)
    return x


# ------------------------------------------------------------------------------------------ values

EMPTY = frozenset()


class Adt:
    """guarded union: alts = {variant_index: (guard, fields_tuple)}; structs and tuples have the single variant 0"""
    __slots__ = ('ty', 'alts', 'cells', '__weakref__')

    def __init__(self, ty, alts):
        self.ty = ty
        self.alts = alts
        c = EMPTY
        for g, fs in alts.values():
            for f in fs:
                fc = cells_of(f)
                if fc:
                    c = c | fc
        self.cells = c

    def __repr__(self):
        return 'Adt(%s,%s)' % (self.ty, {k: (str(g)[:30], fs) for k, (g, fs) in self.alts.items()})


def mk(ty, variant, fields=()):
    return Adt(ty, {variant: (True, tuple(fields))})


def mk_struct(ty, fields):
    return Adt(ty, {0: (True, tuple(fields))})


def mk_tuple(fields):
    return Adt('tuple', {0: (True, tuple(fields))})


UNIT = mk_tuple(())


class Prov:
    """provenance of an Rc in C13's sharing mode: which allocation it is, one-hot {token: guard}; token 'T' = an Rc
    that was already owned by the unique table when the operation started (operands, table entries)"""
    __slots__ = ('alts',)

    def __init__(self, alts):
        self.alts = alts


def prov_merge(c, a, b):
    def d(x):
        if isinstance(x, Prov):
            return x.alts
        return {'T': True} if x is True else {'fresh?': True}
    A, B = d(a), d(b)
    out = {}
    for t in set(A) | set(B):
        g = gite(c, A.get(t, False), B.get(t, False))
        if not g_false(g):
            out[t] = g
    return Prov(out)


class RcV:
    """ghost: optional (world, truth table) of a BDD-valued Rc that is known to be the canonical diagram of that
    table (set by the harness constructor `canon`, preserved by merging); used only by contract summaries"""
    __slots__ = ('inner', 'owned', 'cells', 'ghost')

    def __init__(self, inner, owned=True):
        self.inner = inner
        self.owned = owned
        self.cells = cells_of(inner)
        self.ghost = None


_rc_cache = {}


def mk_rc(inner, owned=True):
    """hash-consed wrapper when the provenance flag is concrete, so that argument identity stays stable"""
    if owned is True or owned is False:
        k = (id(inner), owned)
        r = _rc_cache.get(k)
        if r is not None and r.inner is inner:
            return r
        r = RcV(inner, owned)
        _rc_cache[k] = r
        return r
    return RcV(inner, owned)


class BoxV:
    __slots__ = ('inner', 'cells')

    def __init__(self, inner):
        self.inner = inner
        self.cells = cells_of(inner)


_sref_cache = {}


class SRef:
    """shared reference / const raw pointer: snapshot of the pointee (sound because a shared borrow freezes it;
    interior mutability is reached through RefCellV cell ids, which are not snapshotted)"""
    __slots__ = ('val', 'cells')

    def __init__(self, val):
        self.val = val
        self.cells = cells_of(val)


def mk_sref(val):
    k = id(val)
    r = _sref_cache.get(k)
    if r is not None and r.val is val:
        return r
    r = SRef(val)
    if not isinstance(val, (int, bool)):
        _sref_cache[k] = r
    return r


class MRef:
    __slots__ = ('cell', 'path', 'cells')

    def __init__(self, cell, path=()):
        self.cell = cell
        self.path = path
        self.cells = frozenset([cell])


class Seq:
    """Vec / array / slice contents with concrete length"""
    __slots__ = ('items', 'cells')

    def __init__(self, items):
        self.items = tuple(items)
        c = EMPTY
        for f in self.items:
            fc = cells_of(f)
            if fc:
                c = c | fc
        self.cells = c

    def __repr__(self):
        return 'Seq(%d)' % len(self.items)


class Str:
    """String / str contents: python str or a z3 String term"""
    __slots__ = ('s',)
    cells = EMPTY

    def __init__(self, s):
        self.s = s

    def __repr__(self):
        return 'Str(%r)' % (self.s,)


class TextAlts:
    """symbolic text kept propositional: guarded alternatives, each a tuple of pieces - python str literals and
    ('addr', AddrV) for a pointer rendered with {:p} ("0x" + hex digits; injective in the allocation)"""
    __slots__ = ('alts',)

    def __init__(self, alts):
        self.alts = list(alts)

    @staticmethod
    def of(s):
        if isinstance(s, TextAlts):
            return s
        if isinstance(s, str):
            return TextAlts([(True, (s,))])
        # an ite tree over string literals (what merging concrete strings produces)
        if z3.is_string_value(s):
            return TextAlts([(True, (s.as_string(),))])
        if z3.is_app_of(s, z3.Z3_OP_ITE):
            c, a, b = s.children()
            A, B = TextAlts.of(a), TextAlts.of(b)
            return TextAlts([(gand(c, g), p) for g, p in A.alts] + [(gand(gnot(c), g), p) for g, p in B.alts])
        raise EngineError('text of a solver string term')

    def __repr__(self):
        return 'TextAlts(%d)' % len(self.alts)


def _norm_pieces(ps):
    out = []
    for p in ps:
        if isinstance(p, str):
            if p == '':
                continue
            if out and isinstance(out[-1], str):
                out[-1] += p
            else:
                out.append(p)
        else:
            out.append(p)
    return out


def text_eq(veq, A, B):
    """Bool: two TextAlts denote the same string"""
    import re as _re
    res = False
    for ga, pa in A.alts:
        for gb, pb in B.alts:
            pa2, pb2 = _norm_pieces(pa), _norm_pieces(pb)
            if len(pa2) == len(pb2) and all(isinstance(x, str) == isinstance(y, str) for x, y in zip(pa2, pb2)):
                e = True
                for x, y in zip(pa2, pb2):
                    if isinstance(x, str):
                        e = gand(e, x == y)
                    elif x[0] != y[0]:
                        e = False       # a rendered pointer ("0x..") is never a decimal number
                    elif x[0] == 'int':
                        e = gand(e, x[1] == y[1])
                    else:
                        e = gand(e, veq.eq(x[1], y[1]))
            else:
                # different piece structure: equal only if a literal could be read as a rendered pointer
                lit = ''.join(x if isinstance(x, str) else '0x0' for x in pa2), ''.join(x if isinstance(x, str) else '0x0' for x in pb2)
                allstr_a = all(isinstance(x, str) for x in pa2)
                allstr_b = all(isinstance(x, str) for x in pb2)
                if allstr_a != allstr_b:
                    concrete = ''.join(pa2) if allstr_a else ''.join(pb2)
                    other = pb2 if allstr_a else pa2
                    pat = ''.join(_re.escape(x) if isinstance(x, str) else ('0x[0-9a-f]+' if x[0] == 'addr' else '([0-9]+)') for x in other)
                    mm = _re.fullmatch(pat, concrete)
                    if mm and any(not isinstance(x, str) and x[0] == 'addr' for x in other):
                        raise EngineError('a literal text that reads like a rendered pointer: %r' % concrete)
                    if mm:
                        # literal digits against rendered integers: equal values
                        e = True
                        ints = [x for x in other if not isinstance(x, str)]
                        for x, d in zip(ints, mm.groups()):
                            e = gand(e, x[1] == z3.BitVecVal(int(d), x[1].size())) if int(d) < (1 << x[1].size()) and (d == '0' or not d.startswith('0')) else False
                    else:
                        e = False
                else:
                    raise EngineError('comparison of differently structured symbolic texts')
            res = gor(res, gand(ga, gb, e))
    return res


class Closure:
    __slots__ = ('cid', 'caps', 'cells')

    def __init__(self, cid, caps):
        self.cid = cid
        self.caps = tuple(caps)
        c = EMPTY
        for f in self.caps:
            fc = cells_of(f)
            if fc:
                c = c | fc
        self.cells = c


class AddrV:
    """address of an Rc allocation (Rc::as_ptr / into_raw): modelled as identified with the structure of the node it
    points to - equal structure <=> equal address - which is what the sharing obligation of C13 establishes for
    table-owned diagrams; any arithmetic on it is unsupported"""
    __slots__ = ('inner',)
    cells = EMPTY

    def __init__(self, inner):
        self.inner = inner


class SlotV:
    """pointee of a Box::new_uninit(): a heap slot that is written through a raw pointer before the box is used"""
    __slots__ = ('cell', 'cells')

    def __init__(self, cell):
        self.cell = cell
        self.cells = frozenset([cell])


class PyFn:
    """a harness-supplied function value (symbolic transformer closure)"""
    __slots__ = ('fn',)
    cells = EMPTY

    def __init__(self, fn):
        self.fn = fn

    def __call__(self, *a):
        return self.fn(*a)


class FnItem:
    __slots__ = ('path',)
    cells = EMPTY

    def __init__(self, path):
        self.path = path


class Opaque:
    """a value whose content is outside the model (io::Error, fmt::Arguments, ...)"""
    __slots__ = ('tag', 'payload')
    cells = EMPTY

    def __init__(self, tag, payload=None):
        self.tag = tag
        self.payload = payload

    def __repr__(self):
        return 'Opaque(%s)' % self.tag


class RefCellV:
    __slots__ = ('cell', 'cells')

    def __init__(self, cell):
        self.cell = cell
        self.cells = frozenset([cell])


class BorrowGuard:
    """std::cell::Ref / RefMut"""
    __slots__ = ('cell', 'mut', 'cells')

    def __init__(self, cell, mut):
        self.cell = cell
        self.mut = mut
        self.cells = frozenset([cell])


class IterV:
    """iterator adaptor state; kind in slice, range, map, enumerate, peekable, filter_map, unique, cloned, chain,
    intoiter, captures ...; fields is a tuple of values (positions are concrete python ints)"""
    __slots__ = ('kind', 'fields', 'cells')

    def __init__(self, kind, fields):
        self.kind = kind
        self.fields = tuple(fields)
        c = EMPTY
        for f in self.fields:
            fc = cells_of(f)
            if fc:
                c = c | fc
        self.cells = c


class OrdId:
    """an integer known to be one of the atoms a_0 < a_1 < ... of an ordered world (variable ids): alts {i: guard}.
    Comparisons between two OrdIds of the same world are pure Boolean formulas over the guards; any other use falls
    back to the bit-vector term `bv()` (an ite chain over the 64-bit atom constants), so nothing is assumed about
    how the code treats ids beyond what it actually does."""
    __slots__ = ('atoms', 'alts', '_bv')
    cells = EMPTY

    def __init__(self, atoms, alts):
        self.atoms = atoms
        self.alts = alts
        self._bv = None

    def bv(self):
        if self._bv is None:
            items = sorted(self.alts.items())
            t = None
            for i, g in reversed(items):
                a = self.atoms[i]
                if isinstance(a, int):
                    a = z3.BitVecVal(a, 64)
                t = a if t is None else z3.If(to_bool(g), a, t)
            self._bv = t
        return self._bv

    def rel(self, other, pred):
        """Or over (i,j) with pred(i,j) of guards"""
        ds = []
        for i, g in self.alts.items():
            for j, h in other.alts.items():
                if pred(i, j):
                    ds.append(gand(g, h))
        return gor(*ds)

    def __repr__(self):
        return 'OrdId(%s)' % sorted(self.alts)


def ordid_merge(c, a, b):
    alts = {}
    for i in set(a.alts) | set(b.alts):
        g = gite(c, a.alts.get(i, False), b.alts.get(i, False))
        if not g_false(g):
            alts[i] = g
    return OrdId(a.atoms, alts)


class TableV:
    """abstract unique table: RefCell<FxHashMap<BDD, Rc<BDD>>> contents.
    Representation invariant I: every entry maps a key to an Rc whose content is structurally equal to the key, and
    the two leaves are present.  `get` may hit or miss (fresh Bool) except for leaves (always hit)."""
    __slots__ = ('tag', 'leaves', 'lenv', 'swept')
    cells = EMPTY

    def __init__(self, tag='table', leaves=(True, True)):
        self.tag = tag
        self.leaves = leaves        # guards: the False / the True leaf is (still) an entry.  Both True under the
        self.lenv = None            # invariant; code that removes entries (retain / clear / remove) may falsify them
        self.swept = None           # id of the predicate the table was last swept with (no insert since)


class MapV:
    """concrete-shape map (any HashMap other than the unique table): association list of (guard, key, value),
    newest last; lookups compare keys with the key type's PartialEq (possibly symbolic)"""
    __slots__ = ('items', 'cells')

    def __init__(self, items=()):
        self.items = tuple(items)
        self.cells = EMPTY


class Disc(tuple):
    """discriminant of a guarded union: behaves like the tuple ('disc', adt)"""
    cells = EMPTY

    def __new__(cls, adt):
        return tuple.__new__(cls, ('disc', adt))


class _Special:
    cells = EMPTY

    def __init__(self, n):
        self.n = n

    def __repr__(self):
        return self.n


POISON = _Special('POISON')     # value on an infeasible path
MOVED = _Special('MOVED')
UNINIT = _Special('UNINIT')


def cells_of(v):
    if isinstance(v, (int, bool, z3.ExprRef, str, bytes, tuple)) or v is None:
        return EMPTY
    return v.cells


# ------------------------------------------------------------------------------------------ merging

def merge(c, a, b, ctx=None):
    """value that is `a` when c holds and `b` otherwise"""
    if a is b:
        return a
    if g_true(c):
        return a
    if g_false(c):
        return b
    if a is POISON or a is UNINIT or a is MOVED:
        return b if (b is POISON or b is UNINIT or b is MOVED or a is POISON) else _unm(a, b)
    if b is POISON:
        return a
    if b is UNINIT or b is MOVED:
        _unm(a, b)
    ta = type(a)
    if isinstance(a, bool) or isinstance(b, bool) or isinstance(a, z3.BoolRef) or isinstance(b, z3.BoolRef):
        if not (isinstance(a, (bool, z3.BoolRef)) and isinstance(b, (bool, z3.BoolRef))):
            _unm(a, b)
        if isinstance(a, bool) and isinstance(b, bool) and a == b:
            return a
        return gite(c, a, b)
    if isinstance(a, OrdId) or isinstance(b, OrdId):
        if isinstance(a, OrdId) and isinstance(b, OrdId) and a.atoms is b.atoms:
            return ordid_merge(c, a, b)
        if isinstance(a, OrdId):
            a = a.bv()
        if isinstance(b, OrdId):
            b = b.bv()
    if isinstance(a, (int, z3.BitVecRef)) and isinstance(b, (int, z3.BitVecRef)):
        if isinstance(a, int) and isinstance(b, int):
            if a == b:
                return a
            # width of a python int is not recorded; every integer that meets another one in this code base is
            # usize/isize/i64 (64 bit).  A later width mismatch is detected by the operators (EngineError).
            return z3.If(c, z3.BitVecVal(a, 64), z3.BitVecVal(b, 64))
        if isinstance(a, int):
            a = z3.BitVecVal(a, b.size())
        elif isinstance(b, int):
            b = z3.BitVecVal(b, a.size())
        if a.get_id() == b.get_id():
            return a
        if a.size() != b.size():
            _unm(a, b)
        return z3.If(c, a, b)
    if ta is not type(b):
        # an Rc and an Adt can never meet; Str python vs z3 handled below
        _unm(a, b)
    if ta is Adt:
        if a.ty != b.ty:
            _unm(a, b)
        if a.ty == 'PeekState' and set(a.alts) != set(b.alts):
            # concrete control state of an iterator model ("peeked" / "not peeked"): keep such paths apart
            raise Unmergeable()
        alts = {}
        for v in set(a.alts) | set(b.alts):
            ia = a.alts.get(v)
            ib = b.alts.get(v)
            if ia is None:
                g = gand(gnot(c), ib[0])
                if not g_false(g):
                    alts[v] = (g, ib[1])
            elif ib is None:
                g = gand(c, ia[0])
                if not g_false(g):
                    alts[v] = (g, ia[1])
            else:
                g = gite(c, ia[0], ib[0])
                if len(ia[1]) != len(ib[1]):
                    _unm(a, b)
                if g_false(ia[0]):
                    fs = ib[1]
                elif g_false(ib[0]):
                    fs = ia[1]
                else:
                    fs = tuple(merge(c, x, y, ctx) for x, y in zip(ia[1], ib[1]))
                if not g_false(g):
                    alts[v] = (g, fs)
        return Adt(a.ty, alts)
    if ta is RcV:
        inner = merge(c, a.inner, b.inner, ctx)
        if a.owned is b.owned:
            ow = a.owned
        elif isinstance(a.owned, Prov) or isinstance(b.owned, Prov):
            ow = prov_merge(c, a.owned, b.owned)
        else:
            ow = gite(c, a.owned, b.owned)
            if g_true(ow):
                ow = True
            elif g_false(ow):
                ow = False
        r = mk_rc(inner, ow)
        if a.ghost is not None and b.ghost is not None and a.ghost[0] is b.ghost[0] and r.ghost is None:
            r.ghost = (a.ghost[0], [gite(c, x, y) for x, y in zip(a.ghost[1], b.ghost[1])])
        return r
    if ta is SRef:
        return mk_sref(merge(c, a.val, b.val, ctx))
    if ta is BoxV:
        return BoxV(merge(c, a.inner, b.inner, ctx))
    if ta is Seq:
        if len(a.items) != len(b.items):
            raise Unmergeable()
        return Seq(merge(c, x, y, ctx) for x, y in zip(a.items, b.items))
    if ta is Str:
        if isinstance(a.s, TextAlts) or isinstance(b.s, TextAlts):
            A, B = TextAlts.of(a.s), TextAlts.of(b.s)
            return Str(TextAlts([(gand(c, g), p) for g, p in A.alts] + [(gand(gnot(c), g), p) for g, p in B.alts]))
        if isinstance(a.s, str) and isinstance(b.s, str):
            if a.s == b.s:
                return a
            return Str(z3.If(c, z3.StringVal(a.s), z3.StringVal(b.s)))
        sa = z3.StringVal(a.s) if isinstance(a.s, str) else a.s
        sb = z3.StringVal(b.s) if isinstance(b.s, str) else b.s
        return Str(z3.If(c, sa, sb))
    if ta is MRef:
        if a.cell == b.cell and a.path == b.path:
            return a
        raise Unmergeable()
    if ta is Closure:
        if a.cid != b.cid or len(a.caps) != len(b.caps):
            raise Unmergeable()
        return Closure(a.cid, [merge(c, x, y, ctx) for x, y in zip(a.caps, b.caps)])
    if ta is FnItem:
        if a.path == b.path:
            return a
        raise Unmergeable()
    if ta is Opaque:
        if a.tag == b.tag:
            return a
        raise Unmergeable()
    if ta is RefCellV or ta is BorrowGuard:
        if a.cell == b.cell and getattr(a, 'mut', None) == getattr(b, 'mut', None):
            return a
        raise Unmergeable()
    if ta is IterV:
        if a.kind != b.kind or len(a.fields) != len(b.fields):
            raise Unmergeable()
        fs = []
        for x, y in zip(a.fields, b.fields):
            if isinstance(x, int) and not isinstance(x, bool) and isinstance(y, int):
                if x != y:
                    raise Unmergeable()
                fs.append(x)
            else:
                fs.append(merge(c, x, y, ctx))
        return IterV(a.kind, fs)
    if ta is str or ta is bytes or a is None:
        if a == b:
            return a
        raise Unmergeable()
    if ta is AddrV:
        return AddrV(merge(c, a.inner, b.inner, ctx))
    if ta is TableV:
        if a.leaves == b.leaves or (a.leaves[0] is b.leaves[0] and a.leaves[1] is b.leaves[1]):
            return a
        return TableV(a.tag, (gite(c, a.leaves[0], b.leaves[0]), gite(c, a.leaves[1], b.leaves[1])))
    if ta is MapV:
        ia, ib = a.items, b.items
        n = 0
        while n < len(ia) and n < len(ib) and ia[n][0] is ib[n][0] and ia[n][1] is ib[n][1] and ia[n][2] is ib[n][2]:
            n += 1
        out = list(ia[:n])
        out += [(gand(c, g), k, v) for g, k, v in ia[n:]]
        out += [(gand(gnot(c), g), k, v) for g, k, v in ib[n:]]
        return MapV(out)
    _unm(a, b)


def _unm(a, b):
    raise Unmergeable('%s vs %s' % (type(a).__name__, type(b).__name__))


# ------------------------------------------------------------------------------------------ structural equality

class Veq:
    """structural equality of two values as a z3 Bool (memoised on identities)"""

    def __init__(self, lenient=False):
        self.memo = {}
        self.keep = []
        self.lenient = lenient

    def eq(self, a, b):
        if a is b:
            return True
        k = (id(a), id(b))
        r = self.memo.get(k)
        if r is not None:
            return r
        r = self._eq(a, b)
        self.memo[k] = r
        self.keep.append((a, b))
        return r

    def _eq(self, a, b):
        if isinstance(a, OrdId) or isinstance(b, OrdId):
            if isinstance(a, OrdId) and isinstance(b, OrdId) and a.atoms is b.atoms:
                return a.rel(b, lambda i, j: i == j)
            if isinstance(a, OrdId):
                a = a.bv()
            if isinstance(b, OrdId):
                b = b.bv()
        if isinstance(a, (bool, z3.BoolRef)) and isinstance(b, (bool, z3.BoolRef)):
            if isinstance(a, bool) and isinstance(b, bool):
                return a == b
            return to_bool(a) == to_bool(b)
        if isinstance(a, (int, z3.BitVecRef)) and isinstance(b, (int, z3.BitVecRef)):
            if isinstance(a, int) and isinstance(b, int):
                return a == b
            if isinstance(a, int):
                a = z3.BitVecVal(a, b.size())
            if isinstance(b, int):
                b = z3.BitVecVal(b, a.size())
            return a == b
        if type(a) is not type(b):
            if self.lenient:
                return False
            raise EngineError('veq of %s and %s' % (type(a).__name__, type(b).__name__))
        if isinstance(a, tuple) and a[0] == 'disc':
            A, B = a[1], b[1]
            if A.ty != B.ty:
                return False
            return gor(*[gand(g, B.alts[i][0]) for i, (g, _) in A.alts.items() if i in B.alts])
        if isinstance(a, Adt):
            if a.ty != b.ty:
                raise EngineError('veq of %s and %s' % (a.ty, b.ty))
            if a.ty == 'NamedSymbol':
                # symbols are identified by their id (as the crate's own PartialEq does); names are labels
                return self.eq(a.alts[0][1][1], b.alts[0][1][1])
            ds = []
            for v, (ga, fa) in a.alts.items():
                ib = b.alts.get(v)
                if ib is None:
                    continue
                gb, fb = ib
                ds.append(gand(ga, gb, *[self.eq(x, y) for x, y in zip(fa, fb)]))
            return gor(*ds)
        if isinstance(a, RcV):
            return self.eq(a.inner, b.inner)
        if isinstance(a, BoxV):
            return self.eq(a.inner, b.inner)
        if isinstance(a, SRef):
            return self.eq(a.val, b.val)
        if isinstance(a, Seq):
            if len(a.items) != len(b.items):
                return False
            return gand(*[self.eq(x, y) for x, y in zip(a.items, b.items)])
        if isinstance(a, Str):
            if isinstance(a.s, TextAlts) or isinstance(b.s, TextAlts):
                return text_eq(self, TextAlts.of(a.s), TextAlts.of(b.s))
            if isinstance(a.s, str) and isinstance(b.s, str):
                return a.s == b.s
            sa = z3.StringVal(a.s) if isinstance(a.s, str) else a.s
            sb = z3.StringVal(b.s) if isinstance(b.s, str) else b.s
            return sa == sb
        if isinstance(a, Opaque):
            return a.tag == b.tag
        if isinstance(a, AddrV):
            return self.eq(a.inner, b.inner)
        raise EngineError('veq on ' + type(a).__name__)


# ------------------------------------------------------------------------------------------ paths into values

def get_path(v, path):
    for p in path:
        v = project(v, p)
    return v


def project(v, p):
    if v is POISON:
        return POISON
    k = p[0]
    if k == 'field':
        i = p[1]
        if isinstance(v, Adt):
            if len(v.alts) == 1:
                (g, fs), = v.alts.values()
                if i >= len(fs):
                    raise EngineError('field %d of %s' % (i, v.ty))
                return fs[i]
            raise EngineError('field projection on a multi-variant union without downcast: ' + v.ty)
        if isinstance(v, BoxV):
            # Box<T>.0 = Unique<T>, .0 = NonNull<T>, .0 = *const T : all the same pointer
            return v
        if isinstance(v, Closure):
            return v.caps[i]
        if isinstance(v, IterV):
            return v.fields[i]
        raise EngineError('field projection on %s' % type(v).__name__)
    if k == 'downcast':
        return ('downcast', v, p[1])
    raise EngineError('projection ' + str(p))
