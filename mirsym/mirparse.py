"""Parser for rustc's `-Zunpretty=mir` text (nightly pinned in this image).

Items (fn bodies, promoted consts) are split eagerly; statements and terminators are parsed lazily
(on first execution) so that an unsupported construct in a function that is never executed does not
matter, while one in an executed function fails closed (Unsupported -> exit 2 in the checks).
"""
import re
from dataclasses import dataclass, field


class Unsupported(Exception):
    pass


# ----------------------------------------------------------------------------- low level helpers

OPEN = {'(': ')', '[': ']', '{': '}', '<': '>'}
CLOSE = {v: k for k, v in OPEN.items()}


def split_top(s, sep=','):
    """split s at top-level occurrences of sep (not nested in () [] {} <> or string literals)"""
    out, depth, cur, i, n = [], 0, [], 0, len(s)
    while i < n:
        c = s[i]
        if c == '"' or (c == 'b' and i + 1 < n and s[i + 1] == '"' and (i == 0 or not (s[i - 1].isalnum() or s[i - 1] == '_'))):
            j = i + (2 if c == 'b' else 1)
            while j < n and s[j] != '"':
                if s[j] == '\\':
                    j += 1
                j += 1
            cur.append(s[i:j + 1])
            i = j + 1
            continue
        if c == "'" and i + 2 < n and (s[i + 2] == "'" or (s[i + 1] == '\\' and "'" in s[i + 2:i + 8])):
            # char literal
            j = s.index("'", i + 2 if s[i + 1] != '\\' else i + 3)
            cur.append(s[i:j + 1])
            i = j + 1
            continue
        if c == '-' and i + 1 < n and s[i + 1] == '>':
            cur.append('->')
            i += 2
            continue
        if c == '=' and i + 1 < n and s[i + 1] == '>':
            cur.append('=>')
            i += 2
            continue
        if c in OPEN:
            depth += 1
        elif c in CLOSE:
            depth -= 1
        if depth == 0 and s.startswith(sep, i):
            out.append(''.join(cur).strip())
            cur = []
            i += len(sep)
            continue
        cur.append(c)
        i += 1
    last = ''.join(cur).strip()
    if last or out:
        out.append(last)
    return out


def find_matching(s, i):
    """s[i] is an opening bracket; return index of its match"""
    depth, n = 0, len(s)
    j = i
    while j < n:
        c = s[j]
        if c == '"':
            j += 1
            while j < n and s[j] != '"':
                if s[j] == '\\':
                    j += 1
                j += 1
        elif c == '-' and j + 1 < n and s[j + 1] == '>':
            j += 1
        elif c == '=' and j + 1 < n and s[j + 1] == '>':
            j += 1
        elif c in OPEN:
            depth += 1
        elif c in CLOSE:
            depth -= 1
            if depth == 0:
                return j
        j += 1
    raise Unsupported('unbalanced: ' + s)


def strip_generics(path):
    """remove every <...> group (also ::<...>) from a path"""
    out, depth, i, n = [], 0, 0, len(path)
    while i < n:
        c = path[i]
        if c == '-' and i + 1 < n and path[i + 1] == '>':
            if depth == 0:
                out.append('->')
            i += 2
            continue
        if c == '<':
            depth += 1
            if out[-2:] == [':', ':']:
                out = out[:-2]
        elif c == '>':
            depth -= 1
        elif depth == 0:
            out.append(c)
        i += 1
    return ''.join(out)


# ----------------------------------------------------------------------------- AST

@dataclass(frozen=True)
class Place:
    local: int
    proj: tuple  # of ('deref',) ('field', idx, ty) ('downcast', name) ('index', local) ('cindex', i, fromend) ('subslice', a, b, fromend)


@dataclass(frozen=True)
class Operand:
    kind: str      # 'copy' | 'move' | 'const'
    place: Place = None
    const: object = None   # Const


@dataclass(frozen=True)
class Const:
    kind: str      # int bool str bytes unit zst assoc promoted char float other
    value: object = None
    ty: str = None


@dataclass
class Rvalue:
    kind: str
    a: object = None
    b: object = None
    c: object = None
    d: object = None


@dataclass
class Stmt:
    kind: str      # assign | nop | setdisc
    place: Place = None
    rv: Rvalue = None
    text: str = ''


@dataclass
class Term:
    kind: str
    a: object = None
    b: object = None
    c: object = None
    d: object = None
    e: object = None
    text: str = ''


@dataclass
class Block:
    idx: int
    cleanup: bool
    raw: list
    stmts: list = None
    term: Term = None


@dataclass
class Item:
    kind: str          # fn | const | static
    name: str
    nargs: int
    arg_types: list
    ret_type: str
    locals: dict       # n -> type string
    blocks: dict       # idx -> Block
    span: str = None   # "src/bdd.rs:104:1: 104:29" of the enclosing impl, if any
    last: str = None   # last path segment (fn name / closure chain)
    text_hash: str = None
    lineno: int = 0
    key: tuple = None


# ----------------------------------------------------------------------------- item splitting

RE_FN = re.compile(r'^fn (.*) \{$')
RE_CONST = re.compile(r'^(?:const (.*(?:::promoted\[\d+\]|::\{constant#\d+\}))|static (?:mut )?([\w:]+)): (.*) = \{$')
RE_BB = re.compile(r'^    bb(\d+)( \(cleanup\))?: \{$')
RE_LET = re.compile(r'^\s+let (?:mut )?_(\d+): (.*);$')
RE_IMPL = re.compile(r'<impl at ([^>]*?)>')


def parse_items(text):
    import hashlib
    lines = text.split('\n')
    items = []
    i, n = 0, len(lines)
    while i < n:
        ln = lines[i]
        m = RE_FN.match(ln)
        mc = None if m else RE_CONST.match(ln)
        if not (m or mc) or ln.startswith(' '):
            i += 1
            continue
        start = i
        j = i + 1
        while j < n and lines[j] != '}':
            j += 1
        body = lines[start + 1:j]
        i = j + 1
        if m:
            hdr = m.group(1)
            # name up to the parameter list: the parameter list starts at the first '(' at depth 0 that is
            # followed by '_1: ' or ')'
            k = _find_param_open(hdr)
            name = hdr[:k]
            close = find_matching(hdr, k)
            params = hdr[k + 1:close]
            rest = hdr[close + 1:].strip()
            ret = rest[3:] if rest.startswith('-> ') else '()'
            ptypes = []
            for p in split_top(params):
                if not p:
                    continue
                mm = re.match(r'^_(\d+): (.*)$', p)
                if not mm:
                    raise Unsupported('param: ' + p)
                ptypes.append(mm.group(2))
            it = Item('fn', name, len(ptypes), ptypes, ret, {}, {})
            for q, t in enumerate(ptypes):
                it.locals[q + 1] = t
            it.locals[0] = ret
        else:
            it = Item('const', mc.group(1) or mc.group(2), 0, [], mc.group(3), {}, {})
            it.locals[0] = mc.group(3)
        it.lineno = start + 1
        it.text_hash = hashlib.sha256('\n'.join(lines[start:j + 1]).encode()).hexdigest()[:16]
        mi = RE_IMPL.search(it.name)
        it.span = mi.group(1) if mi else None
        it.last = _last_segments(it.name)
        cur = None
        for bl in body:
            mb = RE_BB.match(bl)
            if mb:
                cur = Block(int(mb.group(1)), bool(mb.group(2)), [])
                it.blocks[cur.idx] = cur
                continue
            if cur is None:
                ml = RE_LET.match(bl)
                if ml:
                    it.locals[int(ml.group(1))] = ml.group(2)
                continue
            s = bl.strip()
            if s == '}':
                cur = None
                continue
            if s:
                cur.raw.append(s)
        items.append(it)
    return items


def _find_param_open(hdr):
    depth = 0
    i, n = 0, len(hdr)
    while i < n:
        c = hdr[i]
        if c == '-' and hdr[i + 1:i + 2] == '>':
            i += 2
            continue
        if c == '(' and depth == 0 and (hdr.startswith('(_1: ', i) or hdr.startswith('()', i)):
            return i
        if c in '<{[':
            depth += 1
        elif c in '>}]':
            depth -= 1
        elif c == '(':
            depth += 1
        elif c == ')':
            depth -= 1
        i += 1
    raise Unsupported('fn header: ' + hdr)


def _last_segments(name):
    """'bdd::<impl at ..>::aln::{closure#0}' -> 'aln::{closure#0}';  '...::mk_const::promoted[0]' -> 'mk_const::promoted[0]'"""
    # remove impl part
    s = RE_IMPL.sub('@', name)
    segs = split_top(s, '::')
    out = []
    for sg in reversed(segs):
        out.append(sg)
        if not (sg.startswith('{closure') or sg.startswith('promoted[') or sg.startswith('{constant')):
            break
    return '::'.join(reversed(out))


# ----------------------------------------------------------------------------- places / operands

RE_LOCAL = re.compile(r'^_(\d+)$')


def parse_place(s):
    s = s.strip()
    m = RE_LOCAL.match(s)
    if m:
        return Place(int(m.group(1)), ())
    if s.startswith('(*') and s.endswith(')') and find_matching(s, 0) == len(s) - 1:
        inner = parse_place(s[2:-1])
        return Place(inner.local, inner.proj + (('deref',),))
    if s.startswith('(') and find_matching(s, 0) == len(s) - 1:
        body = s[1:-1]
        # forms:  P.F: T     |   P as Variant
        # find base place end
        be = _place_end(body)
        base = parse_place(body[:be])
        rest = body[be:]
        if rest.startswith(' as '):
            return Place(base.local, base.proj + (('downcast', rest[4:].strip()),))
        mm = re.match(r'^\.(\d+): (.*)$', rest, re.S)
        if mm:
            return Place(base.local, base.proj + (('field', int(mm.group(1)), mm.group(2)),))
        raise Unsupported('place: ' + s)
    # indexing forms  P[_i]  P[3 of 4]  P[-1 of 4] P[1..] etc
    if s.endswith(']'):
        # find the '[' matching the last ']'
        depth = 0
        for k in range(len(s) - 1, -1, -1):
            if s[k] == ']':
                depth += 1
            elif s[k] == '[':
                depth -= 1
                if depth == 0:
                    break
        base = parse_place(s[:k])
        idx = s[k + 1:-1]
        m = RE_LOCAL.match(idx)
        if m:
            return Place(base.local, base.proj + (('index', int(m.group(1))),))
        mm = re.match(r'^(-?)(\d+) of (\d+)$', idx)
        if mm:
            return Place(base.local, base.proj + (('cindex', int(mm.group(2)), mm.group(1) == '-'),))
        mm = re.match(r'^(\d+):(-?)(\d*)$', idx) or re.match(r'^(\d+)\.\.(-?)(\d*)$', idx)
        if mm:
            return Place(base.local, base.proj + (('subslice', int(mm.group(1)), int(mm.group(3) or 0), mm.group(2) == '-'),))
        raise Unsupported('index place: ' + s)
    raise Unsupported('place: ' + s)


def _place_end(body):
    """body starts with a place; return the index where it ends"""
    if body[0] == '(':
        e = find_matching(body, 0) + 1
    else:
        m = re.match(r'^_\d+', body)
        if not m:
            raise Unsupported('place start: ' + body)
        e = m.end()
    # trailing index projections
    while e < len(body) and body[e] == '[':
        e = find_matching(body, e) + 1
    return e


RE_INT = re.compile(r'^(-?[\d_]+)_?(usize|isize|u8|u16|u32|u64|u128|i8|i16|i32|i64|i128)$')
RE_MAXMIN = re.compile(r'^(?:core::num::<impl )?(usize|isize|u8|u16|u32|u64|i8|i16|i32|i64)>?::(MAX|MIN)$')
INT_BITS = {'usize': 64, 'isize': 64, 'u8': 8, 'u16': 16, 'u32': 32, 'u64': 64, 'u128': 128,
            'i8': 8, 'i16': 16, 'i32': 32, 'i64': 64, 'i128': 128, 'char': 32}


def int_type(ty):
    """(bits, signed) for an integer type name, else None"""
    ty = ty.strip()
    if ty in INT_BITS:
        return INT_BITS[ty], ty.startswith('i')
    return None


def unescape_rust(s):
    out = bytearray()
    i, n = 0, len(s)
    while i < n:
        c = s[i]
        if c == '\\':
            i += 1
            d = s[i]
            if d == 'n':
                out += b'\n'
            elif d == 't':
                out += b'\t'
            elif d == 'r':
                out += b'\r'
            elif d == '0':
                out += b'\0'
            elif d == '\\':
                out += b'\\'
            elif d == '"':
                out += b'"'
            elif d == "'":
                out += b"'"
            elif d == 'x':
                out.append(int(s[i + 1:i + 3], 16))
                i += 2
            elif d == 'u':
                j = s.index('}', i)
                out += chr(int(s[i + 2:j], 16)).encode()
                i = j
            else:
                raise Unsupported('escape \\' + d)
        else:
            out += c.encode()
        i += 1
    return bytes(out)


def parse_const(s):
    s = s.strip()
    if s == 'true':
        return Const('bool', True)
    if s == 'false':
        return Const('bool', False)
    if s == '()':
        return Const('unit')
    m = RE_INT.match(s)
    if m:
        return Const('int', int(m.group(1).replace('_', '')), m.group(2))
    m = RE_MAXMIN.match(s)
    if m:
        bits, signed = int_type(m.group(1))
        if m.group(2) == 'MAX':
            v = (1 << (bits - 1)) - 1 if signed else (1 << bits) - 1
        else:
            v = -(1 << (bits - 1)) if signed else 0
        return Const('int', v, m.group(1))
    if s.startswith('"') and s.endswith('"'):
        return Const('str', unescape_rust(s[1:-1]).decode('utf-8', 'replace'))
    if s.startswith('b"') and s.endswith('"'):
        return Const('bytes', unescape_rust(s[2:-1]))
    if s.startswith("'") and s.endswith("'"):
        return Const('char', unescape_rust(s[1:-1]).decode('utf-8', 'replace'))
    if s.startswith('ZeroSized: '):
        return Const('zst', None, s[len('ZeroSized: '):])
    m = re.match(r'^(.*)::promoted\[(\d+)\]$', s)
    if m:
        return Const('promoted', s)
    if s.startswith('<') and ' as ' in s:
        return Const('assoc', s)
    if re.match(r'^-?[\d._]+(e-?\d+)?f(32|64)$', s) or s.endswith('f64') or s.endswith('f32'):
        return Const('float', s)
    return Const('other', s)


def parse_operand(s):
    s = s.strip()
    if s.startswith('no_retag '):
        s = s[len('no_retag '):]
    if s.startswith('copy '):
        return Operand('copy', parse_place(s[5:]))
    if s.startswith('move '):
        return Operand('move', parse_place(s[5:]))
    if s.startswith('const '):
        return Operand('const', None, parse_const(s[6:]))
    if re.match(r'^[A-Za-z_<][\w:<>, &\'\[\]()]*$', s) and not s.startswith('_'):
        # a function item used as a value (zero-sized fn-item constant)
        return Operand('const', None, Const('fnitem', s))
    raise Unsupported('operand: ' + s)


# ----------------------------------------------------------------------------- rvalues

BINOPS = {'Add', 'Sub', 'Mul', 'Div', 'Rem', 'BitAnd', 'BitOr', 'BitXor', 'Shl', 'Shr', 'Eq', 'Ne', 'Lt', 'Le',
          'Gt', 'Ge', 'AddWithOverflow', 'SubWithOverflow', 'MulWithOverflow', 'AddUnchecked', 'SubUnchecked',
          'MulUnchecked', 'ShlUnchecked', 'ShrUnchecked', 'Offset', 'Cmp'}
UNOPS = {'Not', 'Neg', 'PtrMetadata'}

RE_CALLLIKE = re.compile(r'^([A-Za-z]+)\((.*)\)$', re.S)
RE_CAST = re.compile(r'^(.*) as (.*) \(([A-Za-z]+(?:\(.*\))?)\)$', re.S)


def parse_rvalue(s):
    s = s.strip()
    if s.startswith('&'):
        rest = s[1:]
        kind = 'ref'
        for pre, k in (('mut ', 'refmut'), ('raw const ', 'ref'), ('raw mut ', 'refmut'), ('fake shallow ', 'ref'), ('fake ', 'ref')):
            if rest.startswith(pre):
                rest = rest[len(pre):]
                kind = k
                break
        return Rvalue(kind, parse_place(rest))
    if s.startswith('discriminant(') and s.endswith(')'):
        return Rvalue('discriminant', parse_place(s[len('discriminant('):-1]))
    if s.startswith('no_retag ') or s.startswith('copy ') or s.startswith('move ') or s.startswith('const '):
        m = RE_CAST.match(s)
        if m and _is_operand_text(m.group(1)):
            return Rvalue('cast', parse_operand(m.group(1)), m.group(2), m.group(3))
        return Rvalue('use', parse_operand(s))
    m = RE_CALLLIKE.match(s)
    if m and m.group(1) in BINOPS:
        a, b = split_top(m.group(2))
        return Rvalue('binop', m.group(1), parse_operand(a), parse_operand(b))
    if m and m.group(1) in UNOPS:
        return Rvalue('unop', m.group(1), parse_operand(m.group(2)))
    if m and m.group(1) == 'Len':
        return Rvalue('len', parse_place(m.group(2)))
    if m and m.group(1) == 'CopyForDeref':
        return Rvalue('use', Operand('copy', parse_place(m.group(2))))
    if m and m.group(1) == 'ShallowInitBox':
        raise Unsupported('rvalue: ' + s)
    if s.startswith('(') and find_matching(s, 0) == len(s) - 1:
        parts = [p for p in split_top(s[1:-1]) if p != '']
        return Rvalue('tuple', [parse_operand(p) for p in parts])
    if s.startswith('[') and find_matching(s, 0) == len(s) - 1:
        inner = s[1:-1]
        semi = split_top(inner, ';')
        if len(semi) == 2:
            return Rvalue('repeat', parse_operand(semi[0]), semi[1].strip())
        parts = [p for p in split_top(inner) if p != '']
        return Rvalue('array', [parse_operand(p) for p in parts])
    # aggregates: Path::Variant(args) | Path { f: v } | Path::Variant | {closure@..} { caps } | {closure@..}
    if s.startswith('{closure@') or s.startswith('{coroutine@'):
        e = find_matching(s, 0)
        cid = s[:e + 1]
        rest = s[e + 1:].strip()
        caps = []
        if rest:
            if not (rest.startswith('{') and rest.endswith('}')):
                raise Unsupported('closure aggregate: ' + s)
            for p in split_top(rest[1:-1]):
                if not p:
                    continue
                nm, val = p.split(': ', 1)
                caps.append((nm.strip(), parse_operand(val)))
        return Rvalue('closure', cid, caps)
    if s.endswith(')'):
        # find the '(' that matches the final ')'
        k = _open_of_last(s)
        path = s[:k]
        args = [p for p in split_top(s[k + 1:-1]) if p != '']
        return Rvalue('adt', strip_generics(path), [parse_operand(a) for a in args], None)
    if s.endswith('}'):
        k = _open_of_last(s)
        path = s[:k].strip()
        fields = []
        for p in split_top(s[k + 1:-1]):
            if not p:
                continue
            nm, val = p.split(': ', 1)
            fields.append((nm.strip(), parse_operand(val)))
        return Rvalue('adt', strip_generics(path), [v for _, v in fields], [f for f, _ in fields])
    if re.match(r'^[A-Za-z_][\w:<>, &\'\[\]()]*$', s):
        return Rvalue('adt', strip_generics(s), [], None)
    raise Unsupported('rvalue: ' + s)


def _is_operand_text(t):
    try:
        parse_operand(t)
        return True
    except Unsupported:
        return False


def _open_of_last(s):
    closer = s[-1]
    opener = CLOSE[closer]
    depth = 0
    i = len(s) - 1
    while i >= 0:
        c = s[i]
        if c == '"':
            i -= 1
            while i >= 0 and not (s[i] == '"' and s[i - 1] != '\\'):
                i -= 1
        elif c == closer:
            depth += 1
        elif c == opener:
            depth -= 1
            if depth == 0:
                return i
        i -= 1
    raise Unsupported('unbalanced aggregate: ' + s)


# ----------------------------------------------------------------------------- statements / terminators

RE_SWITCH = re.compile(r'^switchInt\((.*)\) -> \[(.*)\];$', re.S)
RE_GOTO = re.compile(r'^goto -> bb(\d+);$')
RE_DROP = re.compile(r'^drop\((.*)\) -> (?:\[return: bb(\d+), unwind[^\]]*\]|bb(\d+));$')
RE_ASSERT = re.compile(r'^assert\((.*)\) -> (?:\[success: bb(\d+), unwind[^\]]*\]|bb(\d+));$', re.S)
RE_CALL_TAIL = re.compile(r' -> (?:\[return: bb(\d+), unwind[^\]]*\]|bb(\d+)|unwind [a-z() ]+)?;$')
NOP_PREFIXES = ('StorageLive(', 'StorageDead(', 'nop', 'FakeRead(', 'PlaceMention(', 'AscribeUserType(', 'Retag(',
                'Coverage', 'ConstEvalCounter', 'Deinit(', 'BackwardIncompatibleDropHint(')


def parse_block(block):
    if block.stmts is not None:
        return
    stmts = []
    raw = block.raw
    for s in raw[:-1]:
        stmts.append(parse_stmt(s))
    block.term = parse_term(raw[-1])
    block.stmts = stmts


def parse_stmt(s):
    if s.startswith(NOP_PREFIXES):
        return Stmt('nop', text=s)
    if not s.endswith(';'):
        raise Unsupported('stmt: ' + s)
    body = s[:-1]
    if body.startswith('discriminant(') and ') = ' in body:
        k = body.index(') = ')
        return Stmt('setdisc', parse_place(body[len('discriminant('):k]), Rvalue('int', int(body[k + 4:])), s)
    if body.startswith('assume(') or body.startswith('Assume('):
        return Stmt('nop', text=s)
    parts = split_top(body, ' = ')
    if len(parts) < 2:
        raise Unsupported('stmt: ' + s)
    lhs = parts[0]
    rhs = ' = '.join(parts[1:])
    return Stmt('assign', parse_place(lhs), parse_rvalue(rhs), s)


def parse_term(s):
    if s == 'return;':
        return Term('return', text=s)
    if s == 'unreachable;':
        return Term('unreachable', text=s)
    if s == 'resume;' or s.startswith('unwind '):
        return Term('resume', text=s)
    m = RE_GOTO.match(s)
    if m:
        return Term('goto', int(m.group(1)), text=s)
    m = RE_SWITCH.match(s)
    if m:
        targets = []
        otherwise = None
        for t in split_top(m.group(2)):
            k, v = t.split(': ')
            bb = int(v[2:])
            if k == 'otherwise':
                otherwise = bb
            else:
                targets.append((int(k), bb))
        return Term('switch', parse_operand(m.group(1)), targets, otherwise, text=s)
    m = RE_DROP.match(s)
    if m:
        return Term('drop', parse_place(m.group(1)), int(m.group(2) or m.group(3)), text=s)
    m = RE_ASSERT.match(s)
    if m:
        args = split_top(m.group(1))
        cond = args[0]
        neg = False
        if cond.startswith('!'):
            neg = True
            cond = cond[1:]
        msg = args[1] if len(args) > 1 else ''
        return Term('assert', parse_operand(cond), neg, msg, int(m.group(2) or m.group(3)), text=s)
    if s.startswith('falseEdge') or s.startswith('falseUnwind'):
        m = re.search(r'real: bb(\d+)', s) or re.search(r'-> bb(\d+)', s)
        return Term('goto', int(m.group(1)), text=s)
    # call
    m = RE_CALL_TAIL.search(s)
    if m:
        head = s[:m.start()]
        ret_bb = m.group(1)
        diverge_bb = m.group(2)
        parts = split_top(head, ' = ')
        if len(parts) >= 2 and _looks_like_place(parts[0]):
            dest = parse_place(parts[0])
            callexpr = ' = '.join(parts[1:])
        else:
            dest = None
            callexpr = head
        if not callexpr.endswith(')'):
            raise Unsupported('call: ' + s)
        k = _open_of_last(callexpr)
        func = callexpr[:k]
        args = [a for a in split_top(callexpr[k + 1:-1]) if a != '']
        fop = None
        if func.startswith('move ') or func.startswith('copy '):
            fop = parse_operand(func)
        return Term('call', dest, func, [parse_operand(a) for a in args], int(ret_bb) if ret_bb else None, fop, text=s)
    raise Unsupported('terminator: ' + s)


def _looks_like_place(t):
    try:
        parse_place(t)
        return True
    except Unsupported:
        return False
