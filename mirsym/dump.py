"""Regenerate the MIR of /repo's *current working tree* (never reuses a dump of different sources).

The tracked + untracked source files (not target/, not .git) are copied to a scratch directory keyed by a content
hash; `cargo +nightly rustc -- -Zunpretty=mir -C overflow-checks=on` is run there with a private target dir under
/verif/.cache, so only the workspace crates are recompiled."""
import hashlib
import os
import shutil
import subprocess
import sys
import time

REPO = os.environ.get('VERIF_REPO', '/repo')
CACHE = os.environ.get('VERIF_CACHE') or os.path.join(os.path.dirname(os.path.dirname(os.path.abspath(__file__))), '.cache')

SKIP_DIRS = {'target', '.git', '.github', '.devcontainer', 'docs', '.vscode', '.idea'}


def source_files(repo=REPO):
    out = []
    for root, dirs, files in os.walk(repo):
        dirs[:] = sorted(d for d in dirs if d not in SKIP_DIRS)
        for f in sorted(files):
            p = os.path.join(root, f)
            rel = os.path.relpath(p, repo)
            if rel.endswith(('.rs', '.toml', '.lock', '.txt', '.csv')) or '/src/' in rel:
                out.append(rel)
    return out


def tree_hash(repo=REPO):
    h = hashlib.sha256()
    for rel in source_files(repo):
        h.update(rel.encode())
        h.update(b'\0')
        with open(os.path.join(repo, rel), 'rb') as f:
            h.update(f.read())
        h.update(b'\0')
    return h.hexdigest()[:20]


def copy_tree(dst, repo=REPO):
    if os.path.exists(dst):
        shutil.rmtree(dst)
    for rel in source_files(repo):
        d = os.path.join(dst, rel)
        os.makedirs(os.path.dirname(d), exist_ok=True)
        shutil.copy2(os.path.join(repo, rel), d)


TARGETS = {
    'lib': ['--lib'],
    'rsbdd': ['--bin', 'rsbdd'],
    'random_graph_gen': ['-p', 'random_graph_gen', '--bin', 'random_graph_gen'],
    'n_queens_gen': ['-p', 'n_queens_gen', '--bin', 'n_queens_gen'],
    'max_clique_gen': ['-p', 'max_clique_gen', '--bin', 'max_clique_gen'],
    'sudoku_gen': ['-p', 'sudoku_gen', '--bin', 'sudoku_gen'],
}


def get_mir(target='lib', repo=REPO, overflow_checks=True, verbose=False):
    """-> (mir_text, info dict).  Cached per (tree hash, target)."""
    th = tree_hash(repo)
    os.makedirs(os.path.join(CACHE, 'mir'), exist_ok=True)
    out = os.path.join(CACHE, 'mir', '%s-%s.mir' % (th, target))
    info = {'tree_hash': th, 'target': target, 'cached': True}
    if os.path.exists(out) and os.path.getsize(out) > 1000:
        return open(out).read(), info
    t0 = time.time()
    src = os.path.join(CACHE, 'src', th)
    if not os.path.exists(os.path.join(src, 'Cargo.toml')):
        copy_tree(src + '.tmp%d' % os.getpid(), repo)
        try:
            os.rename(src + '.tmp%d' % os.getpid(), src)
        except OSError:
            shutil.rmtree(src + '.tmp%d' % os.getpid(), ignore_errors=True)
    env = dict(os.environ)
    env['CARGO_NET_OFFLINE'] = 'true'
    env['CARGO_TARGET_DIR'] = os.path.join(CACHE, 'mir-target')
    env.pop('RUSTFLAGS', None)
    # cargo prints nothing to stdout except the rustc pretty-printer output
    main = 'src/lib.rs' if target == 'lib' else None
    cmd = ['cargo', '+nightly', 'rustc', '--offline'] + TARGETS[target] + ['--', '-Zunpretty=mir', '-C', 'overflow-checks=on', '-C', 'debug-assertions=on']
    # make sure the crate root is considered dirty (otherwise cargo prints nothing)
    for rel in ('src/lib.rs', 'src/bin/rsbdd.rs', 'random_graph_gen/src/main.rs', 'n_queens_gen/src/main.rs', 'max_clique_gen/src/main.rs', 'sudoku_gen/src/main.rs'):
        p = os.path.join(src, rel)
        if os.path.exists(p):
            os.utime(p, None)
    import fcntl
    lock = open(os.path.join(CACHE, 'mir.lock'), 'w')
    fcntl.flock(lock, fcntl.LOCK_EX)
    try:
        if os.path.exists(out) and os.path.getsize(out) > 1000:
            return open(out).read(), info
        p = subprocess.run(cmd, cwd=src, env=env, stdout=subprocess.PIPE, stderr=subprocess.PIPE, text=True)
        if p.returncode != 0 or len(p.stdout) < 1000:
            sys.stderr.write(p.stderr[-4000:])
            raise RuntimeError('MIR dump failed for target %s (rc=%d)' % (target, p.returncode))
        with open(out + '.tmp', 'w') as f:
            f.write(p.stdout)
        os.rename(out + '.tmp', out)
    finally:
        fcntl.flock(lock, fcntl.LOCK_UN)
        lock.close()
    info['cached'] = False
    info['dump_s'] = round(time.time() - t0, 1)
    # keep the cache small: drop sources / dumps of other trees
    _gc(th)
    return open(out).read(), info


def _gc(keep):
    for sub in ('src', 'mir'):
        d = os.path.join(CACHE, sub)
        if not os.path.isdir(d):
            continue
        ents = sorted(os.listdir(d), key=lambda e: os.path.getmtime(os.path.join(d, e)))
        old = [e for e in ents if not e.startswith(keep)]
        for e in old[:-6] if len(old) > 6 else []:
            p = os.path.join(d, e)
            if os.path.isdir(p):
                shutil.rmtree(p, ignore_errors=True)
            else:
                try:
                    os.remove(p)
                except OSError:
                    pass


def source_root(repo=REPO):
    th = tree_hash(repo)
    src = os.path.join(CACHE, 'src', th)
    if not os.path.exists(os.path.join(src, 'Cargo.toml')):
        copy_tree(src, repo)
    return src


if __name__ == '__main__':
    t = sys.argv[1] if len(sys.argv) > 1 else 'lib'
    text, info = get_mir(t)
    print(info, len(text))
