"""Regenerate the MIR of /repo's *current working tree* (never reuses a dump of different sources).

The tracked + untracked source files (not target/, not .git) are copied to a scratch directory keyed by a content
hash; `cargo +nightly rustc -- -Zunpretty=mir -C overflow-checks=on` is run there with a private target dir under
/verif/.cache, so only the workspace crates are recompiled."""
import hashlib
import os
import shutil
import subprocess
import sys
import time

REPO = os.environ.get('VERIF_REPO', '/repo')
CACHE = os.environ.get('VERIF_CACHE') or os.path.join(os.path.dirname(os.path.dirname(os.path.abspath(__file__))), '.cache')

SKIP_DIRS = {'target', '.git', '.github', '.devcontainer', 'docs', '.vscode', '.idea'}


def source_files(repo=REPO):
    out = []
    for root, dirs, files in os.walk(repo):
        dirs[:] = sorted(d for d in dirs if d not in SKIP_DIRS)
        for f in sorted(files):
            p = os.path.join(root, f)
            rel = os.path.relpath(p, repo)
            if rel.endswith(('.rs', '.toml', '.lock', '.txt', '.csv')) or '/src/' in rel:
                out.append(rel)
    return out


def tree_hash(repo=REPO):
    h = hashlib.sha256()
    for rel in source_files(repo):
        h.update(rel.encode())
        h.update(b'\0')
        with open(os.path.join(repo, rel), 'rb') as f:
            h.update(f.read())
        h.update(b'\0')
    return h.hexdigest()[:20]


def copy_tree(dst, repo=REPO):
    if os.path.exists(dst):
        shutil.rmtree(dst)
    for rel in source_files(repo):
        d = os.path.join(dst, rel)
        os.makedirs(os.path.dirname(d), exist_ok=True)
        shutil.copy2(os.path.join(repo, rel), d)


TARGETS = {
    'lib': ['--lib'],
    'rsbdd': ['--bin', 'rsbdd'],
    'random_graph_gen': ['-p', 'random_graph_gen', '--bin', 'random_graph_gen'],
    'n_queens_gen': ['-p', 'n_queens_gen', '--bin', 'n_queens_gen'],
    'max_clique_gen': ['-p', 'max_clique_gen', '--bin', 'max_clique_gen'],
    'sudoku_gen': ['-p', 'sudoku_gen', '--bin', 'sudoku_gen'],
}


def get_mir(target='lib', repo=REPO, overflow_checks=True, verbose=False):
    """-> (mir_text, info dict).  Cached per (tree hash, target)."""
    th = tree_hash(repo)
    os.makedirs(os.path.join(CACHE, 'mir'), exist_ok=True)
    out = os.path.join(CACHE, 'mir', '%s-%s.mir' % (th, target))
    info = {'tree_hash': th, 'target': target, 'cached': True}
    if os.path.exists(out) and os.path.getsize(out) > 1000:
        return open(out).read(), info
    t0 = time.time()
    src = os.path.join(CACHE, 'src', th)
    src = source_root(repo)
    env = dict(os.environ)
    env['CARGO_NET_OFFLINE'] = 'true'
    env['CARGO_TARGET_DIR'] = os.path.join(CACHE, 'mir-target')
    env.pop('RUSTFLAGS', None)
    # cargo prints nothing to stdout except the rustc pretty-printer output
    main = 'src/lib.rs' if target == 'lib' else None
    cmd = ['cargo', '+nightly', 'rustc', '--offline'] + TARGETS[target] + ['--', '-Zunpretty=mir', '-C', 'overflow-checks=on', '-C', 'debug-assertions=on']
    # make sure the crate root is considered dirty (otherwise cargo prints nothing)
    for rel in ('src/lib.rs', 'src/bin/rsbdd.rs', 'random_graph_gen/src/main.rs', 'n_queens_gen/src/main.rs', 'max_clique_gen/src/main.rs', 'sudoku_gen/src/main.rs'):
        p = os.path.join(src, rel)
        if os.path.exists(p):
            os.utime(p, None)
    import fcntl
    lock = open(os.path.join(CACHE, 'mir.lock'), 'w')
    fcntl.flock(lock, fcntl.LOCK_EX)
    try:
        if os.path.exists(out) and os.path.getsize(out) > 1000:
            return open(out).read(), info
        p = subprocess.run(cmd, cwd=src, env=env, stdout=subprocess.PIPE, stderr=subprocess.PIPE, text=True)
        if p.returncode != 0 or len(p.stdout) < 1000:
            sys.stderr.write(p.stderr[-4000:])
            raise RuntimeError('MIR dump failed for target %s (rc=%d)' % (target, p.returncode))
        with open(out + '.tmp', 'w') as f:
            f.write(p.stdout)
        os.rename(out + '.tmp', out)
    finally:
        fcntl.flock(lock, fcntl.LOCK_UN)
        lock.close()
    info['cached'] = False
    info['dump_s'] = round(time.time() - t0, 1)
    # keep the cache small: drop sources / dumps of other trees
    _gc(th)
    return open(out).read(), info


def _gc(keep):
    """drop the sources and dumps of all but the 6 most recently dumped other trees (both kinds together, by hash)"""
    md = os.path.join(CACHE, 'mir')
    sd = os.path.join(CACHE, 'src')
    age = {}
    for e in (os.listdir(md) if os.path.isdir(md) else []):
        h = e.split('-')[0]
        age[h] = max(age.get(h, 0), os.path.getmtime(os.path.join(md, e)))
    for e in (os.listdir(sd) if os.path.isdir(sd) else []):
        h = e.split('.')[0]
        age.setdefault(h, os.path.getmtime(os.path.join(sd, e)))
    old = sorted((h for h in age if h != keep), key=lambda h: age[h])
    for h in old[:-6] if len(old) > 6 else []:
        for e in (os.listdir(md) if os.path.isdir(md) else []):
            if e.startswith(h):
                try:
                    os.remove(os.path.join(md, e))
                except OSError:
                    pass
        for e in (os.listdir(sd) if os.path.isdir(sd) else []):
            if e.startswith(h):
                shutil.rmtree(os.path.join(sd, e), ignore_errors=True)


def source_root(repo=REPO):
    """copy of the tree under test, keyed by its content hash; created atomically (copy aside, then rename) because
    the worker processes of one check may all ask for it at the same moment"""
    th = tree_hash(repo)
    src = os.path.join(CACHE, 'src', th)
    if not os.path.exists(os.path.join(src, '.complete')):
        tmp = src + '.tmp%d' % os.getpid()
        copy_tree(tmp, repo)
        open(os.path.join(tmp, '.complete'), 'w').write(th)
        try:
            os.rename(tmp, src)                     # atomic; fails if another worker was first
        except OSError:
            if os.path.exists(os.path.join(src, '.complete')):
                shutil.rmtree(tmp, ignore_errors=True)      # somebody else's complete copy: use it
            else:
                # an incomplete directory left behind by a killed run: move it aside, never delete a complete one
                try:
                    os.rename(src, src + '.stale%d' % os.getpid())
                    os.rename(tmp, src)
                except OSError:
                    shutil.rmtree(tmp, ignore_errors=True)
                shutil.rmtree(src + '.stale%d' % os.getpid(), ignore_errors=True)
        if not os.path.exists(os.path.join(src, '.complete')):
            raise RuntimeError('could not create the source copy %s' % src)
    return src


if __name__ == '__main__':
    t = sys.argv[1] if len(sys.argv) > 1 else 'lib'
    text, info = get_mir(t)
    print(info, len(text))
