"""Light-weight reader of the crate's Rust sources: enum variant order, struct field order, and the
(type, trait) an `<impl at file:l:c: l:c>` span refers to.  Fails closed (Unsupported) on surprises."""
import os
import re
from .mirparse import Unsupported, split_top, find_matching, strip_generics

STD_ENUMS = {
    'Option': ['None', 'Some'],
    'Result': ['Ok', 'Err'],
    'ControlFlow': ['Continue', 'Break'],
    'Ordering': ['Less', 'Equal', 'Greater'],
    'Cow': ['Borrowed', 'Owned'],
}
STD_DISCR = {'Ordering': {'Less': -1, 'Equal': 0, 'Greater': 1}}


def _strip_comments(src):
    # remove // comments and /* */ comments (keeping line structure), ignoring string literal subtleties that do not
    # occur in type definitions
    lines = []
    for ln in src.split('\n'):
        k = ln.find('//')
        while k >= 0:
            if ln[:k].count('"') % 2 == 0:
                ln = ln[:k]
                break
            k = ln.find('//', k + 2)
        lines.append(ln)
    return '\n'.join(lines)
    out = []
    i, n = 0, len(src)
    while i < n:
        if src.startswith('//', i):
            j = src.find('\n', i)
            if j < 0:
                j = n
            i = j
            continue
        if src.startswith('/*', i):
            j = src.find('*/', i)
            seg = src[i:j + 2]
            out.append('\n' * seg.count('\n'))
            i = j + 2
            continue
        if src[i] == '"':
            j = i + 1
            while j < n and src[j] != '"':
                if src[j] == '\\':
                    j += 1
                j += 1
            out.append(src[i:j + 1])
            i = j + 1
            continue
        out.append(src[i])
        i += 1
    return ''.join(out)


class Defs:
    def __init__(self, root, files):
        self.enums = {k: list(v) for k, v in STD_ENUMS.items()}
        self.structs = {}
        self.field_types = {}
        self.sources = {}
        self.root = root
        for rel in files:
            p = os.path.join(root, rel)
            if not os.path.exists(p):
                if rel in ('src/bdd.rs', 'src/parser.rs', 'src/lib.rs'):
                    raise Unsupported('source file %s is missing from the copy of the tree under test' % rel)
                continue
            raw = open(p).read()
            self.sources[rel] = raw
            self._scan(_strip_comments(raw))

    def _scan(self, src):
        for m in re.finditer(r'\b(enum|struct)\s+([A-Za-z_]\w*)\s*(<[^{;(]*>)?\s*(where[^{;]*)?([{;(])', src):
            kind, name, opener = m.group(1), m.group(2), m.group(5)
            if opener == ';':
                self.structs[name] = []
                continue
            k = m.end() - 1
            e = find_matching(src, k)
            body = src[k + 1:e]
            parts = [p for p in split_top(body) if p.strip()]
            names = []
            types = {}
            for p in parts:
                p = re.sub(r'#\[[^\]]*\]', '', p).strip()
                p = re.sub(r'^pub(\([^)]*\))?\s+', '', p)
                if opener == '(':
                    names.append(str(len(names)))
                    continue
                mm = re.match(r'^([A-Za-z_]\w*)', p)
                if not mm:
                    raise Unsupported('definition of %s: %r' % (name, p))
                names.append(mm.group(1))
                mt = re.match(r'^[A-Za-z_]\w*\s*:\s*(.*)$', p, re.S)
                if mt and kind == 'struct':
                    types[mm.group(1)] = mt.group(1).strip()
            if kind == 'struct':
                self.field_types[name] = types
            if kind == 'enum':
                self.enums[name] = names
            else:
                self.structs[name] = names

    def variant_index(self, ty, variant):
        vs = self.enums.get(ty)
        if vs is None or variant not in vs:
            raise Unsupported('unknown variant %s::%s' % (ty, variant))
        return vs.index(variant)

    def discr_value(self, ty, idx):
        d = STD_DISCR.get(ty)
        if d:
            return d[self.enums[ty][idx]]
        return idx

    def impl_of_span(self, span):
        """span 'src/bdd.rs:104:1: 104:29' -> (type_last_segment, trait_or_None)"""
        m = re.match(r'^(.*?):(\d+):(\d+): (\d+):(\d+)$', span)
        if not m:
            raise Unsupported('span ' + span)
        rel, l1, c1, l2, c2 = m.group(1), int(m.group(2)), int(m.group(3)), int(m.group(4)), int(m.group(5))
        src = self.sources.get(rel)
        if src is None:
            return None
        lines = src.split('\n')
        if l1 == l2:
            text = lines[l1 - 1][c1 - 1:c2 - 1]
        else:
            text = '\n'.join([lines[l1 - 1][c1 - 1:]] + lines[l1:l2 - 1] + [lines[l2 - 1][:c2 - 1]])
        text = text.strip()
        if text.startswith('impl'):
            t = text[4:].strip()
            if t.startswith('<'):
                t = t[find_matching(t, 0) + 1:].strip()
            t = re.split(r'\bwhere\b', t)[0].strip()
            if ' for ' in t:
                tr, ty = t.split(' for ', 1)
                return (_last(ty), _last(tr))
            return (_last(t), None)
        # derive: text is the trait name; type is the next enum/struct after line l1
        if re.match(r'^[A-Za-z_]\w*$', text):
            for ln in lines[l1 - 1:]:
                mm = re.search(r'\b(?:enum|struct)\s+([A-Za-z_]\w*)', ln)
                if mm and not ln.strip().startswith('#'):
                    return (mm.group(1), text)
        return None


def _last(t):
    t = strip_generics(t.strip()).strip()
    t = t.lstrip('&').strip()
    return t.split('::')[-1].strip()
