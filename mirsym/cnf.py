"""Tseitin encoding of a quantifier-free *propositional* z3 formula (DAG walk, both polarities) to DIMACS, for the
kissat back end.  Returns None when the formula contains theory atoms (then the caller uses z3's SMT core)."""
import subprocess
import tempfile
import os
import z3

K = z3
OPS_AND = z3.Z3_OP_AND
OPS_OR = z3.Z3_OP_OR
OPS_NOT = z3.Z3_OP_NOT
OPS_ITE = z3.Z3_OP_ITE
OPS_EQ = z3.Z3_OP_EQ
OPS_IFF = getattr(z3, 'Z3_OP_IFF', None)
OPS_XOR = z3.Z3_OP_XOR
OPS_IMPL = z3.Z3_OP_IMPLIES
OPS_TRUE = z3.Z3_OP_TRUE
OPS_FALSE = z3.Z3_OP_FALSE
OPS_UNINT = z3.Z3_OP_UNINTERPRETED
OPS_DISTINCT = z3.Z3_OP_DISTINCT


class NotPropositional(Exception):
    pass


def encode(formulas):
    """-> (nvars, clauses, atom_names{var: name})"""
    lit_of = {}      # ast id -> literal (int)
    clauses = []
    names = {}
    nv = [0]
    keep = []

    def newvar():
        nv[0] += 1
        return nv[0]

    TRUE = newvar()
    clauses.append((TRUE,))

    ctx_ref = z3.main_ctx().ref()
    get_id = z3.Z3_get_ast_id
    app_decl = z3.Z3_get_app_decl
    decl_kind = z3.Z3_get_decl_kind
    num_args = z3.Z3_get_app_num_args
    get_arg = z3.Z3_get_app_arg
    sort_kind = z3.Z3_get_sort_kind
    get_sort = z3.Z3_get_sort
    BOOL_SORT = z3.Z3_BOOL_SORT

    def walk(root_ast):
        # iterative post-order on raw ast handles
        stack = [(root_ast, False)]
        while stack:
            a, done = stack.pop()
            aid = get_id(ctx_ref, a)
            if aid in lit_of:
                continue
            d = app_decl(ctx_ref, a)
            k = decl_kind(ctx_ref, d)
            n = num_args(ctx_ref, a)
            if not done:
                if k == OPS_TRUE:
                    lit_of[aid] = TRUE
                    continue
                if k == OPS_FALSE:
                    lit_of[aid] = -TRUE
                    continue
                if k == OPS_UNINT and n == 0:
                    if sort_kind(ctx_ref, get_sort(ctx_ref, a)) != BOOL_SORT:
                        raise NotPropositional()
                    v = newvar()
                    names[v] = z3.Z3_get_symbol_string(ctx_ref, z3.Z3_get_decl_name(ctx_ref, d))
                    lit_of[aid] = v
                    continue
                if k in (OPS_AND, OPS_OR, OPS_NOT, OPS_ITE, OPS_XOR, OPS_IMPL) or (k in (OPS_EQ, OPS_IFF, OPS_DISTINCT) and n == 2):
                    args = [get_arg(ctx_ref, a, i) for i in range(n)]
                    if k in (OPS_EQ, OPS_IFF, OPS_DISTINCT, OPS_ITE):
                        # operands must be Boolean
                        if sort_kind(ctx_ref, get_sort(ctx_ref, args[-1])) != BOOL_SORT:
                            raise NotPropositional('theory atom: kind=%d sortkind=%d last=%s' % (k, sort_kind(ctx_ref, get_sort(ctx_ref, args[-1])), z3.Z3_ast_to_string(ctx_ref, args[-1])[:300]))
                    stack.append((a, True))
                    for x in args:
                        if get_id(ctx_ref, x) not in lit_of:
                            stack.append((x, False))
                    continue
                raise NotPropositional('kind %d n=%d %s' % (k, n, z3.Z3_ast_to_string(ctx_ref, a)[:200]))
            # children done
            ls = [lit_of[get_id(ctx_ref, get_arg(ctx_ref, a, i))] for i in range(n)]
            if k == OPS_NOT:
                lit_of[aid] = -ls[0]
                continue
            if k == OPS_AND or k == OPS_OR:
                if k == OPS_OR:
                    ls = [-x for x in ls]
                # v <-> AND(ls)
                v = newvar()
                for x in ls:
                    clauses.append((-v, x))
                clauses.append(tuple([v] + [-x for x in ls]))
                lit_of[aid] = v if k == OPS_AND else -v
                continue
            if k == OPS_IMPL:
                p, q = ls
                v = newvar()   # v <-> (p and not q) ; result = -v
                clauses.append((-v, p))
                clauses.append((-v, -q))
                clauses.append((v, -p, q))
                lit_of[aid] = -v
                continue
            if k in (OPS_EQ, OPS_IFF, OPS_XOR, OPS_DISTINCT):
                if len(ls) != 2:
                    raise NotPropositional()
                p, q = ls
                v = newvar()   # v <-> (p xor q)
                clauses.append((-v, p, q))
                clauses.append((-v, -p, -q))
                clauses.append((v, -p, q))
                clauses.append((v, p, -q))
                lit_of[aid] = v if k in (OPS_XOR, OPS_DISTINCT) else -v
                continue
            if k == OPS_ITE:
                c, t, e = ls
                v = newvar()
                clauses.append((-v, -c, t))
                clauses.append((-v, c, e))
                clauses.append((v, -c, -t))
                clauses.append((v, c, -e))
                lit_of[aid] = v
                continue
            raise NotPropositional()

    for f in formulas:
        keep.append(f)
        walk(f.as_ast())
        clauses.append((lit_of[get_id(ctx_ref, f.as_ast())],))
    return nv[0], clauses, names


def solve_kissat(formulas, timeout_s=3600, workdir=None):
    """-> ('sat', {name: bool}) | ('unsat', None) | ('unknown', None) ; raises NotPropositional"""
    nv, clauses, names = encode(formulas)
    fd, path = tempfile.mkstemp(suffix='.cnf', dir=workdir)
    try:
        with os.fdopen(fd, 'w') as f:
            f.write('p cnf %d %d\n' % (nv, len(clauses)))
            f.write('\n'.join(' '.join(map(str, c)) + ' 0' for c in clauses))
            f.write('\n')
        try:
            p = subprocess.run(['kissat', '-q', path], capture_output=True, text=True, timeout=timeout_s)
        except subprocess.TimeoutExpired:
            return 'unknown', None, (nv, len(clauses))
        if p.returncode == 20:
            return 'unsat', None, (nv, len(clauses))
        if p.returncode == 10:
            model = {}
            for ln in p.stdout.split('\n'):
                if ln.startswith('v '):
                    for tok in ln[2:].split():
                        l = int(tok)
                        if l != 0 and abs(l) in names:
                            model[names[abs(l)]] = l > 0
            return 'sat', model, (nv, len(clauses))
        return 'unknown', None, (nv, len(clauses))
    finally:
        try:
            os.remove(path)
        except OSError:
            pass
