"""Library models: the trusted base of MIRSYM.  Each model is a few lines; the names of the models used by a run are
reported in its evidence.  Signature: model(I, fr, args, ck) -> value | Outs([...])."""
import re
import z3

from .values import *    # noqa
from .interp import Outcome, Outs, CellState, PanicNow, get_mpath, set_mpath, Frame
from .mirparse import Unsupported, strip_generics


def ret(v, guard=True):
    return Outcome('ret', guard, v, None)


def panic(guard, msg):
    return Outcome('panic', guard, None, None, msg)


class Models:
    def __init__(self):
        self.table = {}
        self.used = set()
        self.override = {}
        # impls of these (type, trait) pairs are interpreted from the crate's MIR when they exist; derived Clone /
        # Debug / Hash(outside C02) impls are modelled instead (identity / opaque)
        self.interpret = lambda ty, trait, method: trait not in ('Clone', 'Debug', 'Display')
        register_all(self)
        register_more(self)
        register_ints(self)
        register_batch3(self)

    def add(self, selfty, trait, method, fn):
        self.table[(selfty, trait, method)] = fn

    def interpret_impl(self, ty, trait, method):
        return self.interpret(ty, trait, method)

    def lookup_override(self, ck):
        return self.override.get((ck.selfty, ck.method))

    def lookup(self, ck, ty):
        for key in ((ty, ck.trait, ck.method), (ck.selfty, ck.trait, ck.method), (None, ck.trait, ck.method) if ck.trait else (None, None, None),
                    (ty, None, ck.method) if ck.trait is None else (None, None, None)):
            f = self.table.get(key)
            if f is not None:
                self.used.add('%s::%s%s' % (key[0] or '*', (key[1] + '::') if key[1] else '', key[2]))
                return f
        return None


# ------------------------------------------------------------------------------------------------ helpers

def deref1(I, fr, v):
    if isinstance(v, SRef):
        return v.val
    if isinstance(v, MRef):
        return get_mpath(I, fr.mem[v.cell], v.path)
    raise EngineError('expected a reference, got %s' % type(v).__name__)


def write_mref(I, fr, r, newv):
    if not isinstance(r, MRef):
        raise EngineError('expected &mut, got %s' % type(r).__name__)
    m = dict(fr.mem)
    m[r.cell] = set_mpath(I, fr.mem[r.cell], r.path, newv)
    fr.mem = m


def option(I, guard_some, payload):
    """Option value: Some(payload) under guard_some else None"""
    alts = {}
    if not g_false(guard_some):
        alts[1] = (guard_some, (payload,))
    if not g_true(guard_some):
        alts[0] = (gnot(guard_some), ())
    return Adt('Option', alts)


def some(v):
    return mk('Option', 1, [v])


NONE = mk('Option', 0, [])


def guarded_unwrap(I, v, what, msg_prefix):
    """Option/Result unwrap: -> Outs with panic under the bad variant"""
    good = 1 if v.ty == 'Option' else 0
    bad = 1 - good
    outs = Outs()
    if bad in v.alts and not g_false(v.alts[bad][0]):
        outs.append(panic(v.alts[bad][0], msg_prefix))
    if good in v.alts and not g_false(v.alts[good][0]):
        outs.append(ret(v.alts[good][1][0], v.alts[good][0]))
    return outs


# ------------------------------------------------------------------------------------------------ Rc / Box / refs

def m_rc_new(I, fr, a, ck):
    if I.prov is not None and isinstance(a[0], Adt) and a[0].ty == 'BDD':
        # provenance mode: ownership of this allocation by the unique table is a fresh Boolean, later constrained to
        # "an insert of this very allocation was executed"
        I.fresh_n += 1
        tok = 'alloc%d' % I.fresh_n
        r = RcV(a[0], Prov({tok: True}))
        I.prov['allocs'][tok] = r
        return r
    return mk_rc(a[0], I.cfg['rc_new_owned'])


def m_rc_clone(I, fr, a, ck):
    return deref1(I, fr, a[0])


def m_rc_as_ref(I, fr, a, ck):
    rc = deref1(I, fr, a[0])
    if isinstance(rc, RcV):
        return mk_sref(rc.inner)
    if isinstance(rc, BoxV):
        return mk_sref(rc.inner)
    raise EngineError('as_ref/deref on %s' % type(rc).__name__)


def m_identity_clone(I, fr, a, ck):
    v = deref1(I, fr, a[0])
    return v


def m_box_new(I, fr, a, ck):
    return BoxV(a[0])


def m_rc_eq(I, fr, a, ck):
    x = I.peel_all(a[0], fr)
    y = I.peel_all(a[1], fr)
    return value_eq_call(I, fr, x, y, ck.method == 'ne')


def value_eq_call(I, fr, x, y, negate=False):
    """PartialEq on values: unwrap Rc/Box/&, then ints / crate impl / structural for std containers"""
    if x is y and not negate and isinstance(x, (RcV, Adt, Seq, Str)):
        return True       # Eq is reflexive for every type compared in this crate (no floats)
    while isinstance(x, (RcV, BoxV)):
        x = x.inner
    while isinstance(y, (RcV, BoxV)):
        y = y.inner
    if isinstance(x, SRef):
        x = I.peel_all(x, fr)
    if isinstance(y, SRef):
        y = I.peel_all(y, fr)
    if isinstance(x, (RcV, BoxV)) or isinstance(y, (RcV, BoxV)):
        return value_eq_call(I, fr, x, y, negate)
    if isinstance(x, (int, bool, z3.ExprRef, OrdId)) and isinstance(y, (int, bool, z3.ExprRef, OrdId)):
        r = Veq().eq(x, y)
        return gnot(r) if negate else r
    if isinstance(x, Adt) and isinstance(y, Adt) and x.ty == y.ty:
        it = I.by_key.get((x.ty, 'PartialEq', 'eq'))
        if it is not None:
            outs = I.call_item(it, [mk_sref(x), mk_sref(y)], fr.mem)
            res = Outs()
            for o in outs:
                if o.kind == 'ret':
                    res.append(Outcome('ret', o.guard, gnot(o.value) if negate else o.value, o.mem))
                else:
                    res.append(o)
            return res
        if x.ty in ('Option', 'tuple', 'Result'):
            # structural with recursive calls into element equality
            return struct_eq(I, fr, x, y, negate)
        raise Unsupported('PartialEq for ' + x.ty)
    if isinstance(x, AddrV) and isinstance(y, AddrV):
        return value_eq_call(I, fr, x.inner, y.inner, negate)
    if isinstance(x, Seq) and isinstance(y, Seq):
        if len(x.items) != len(y.items):
            return negate
        return seq_eq(I, fr, x.items, y.items, negate)
    if isinstance(x, Str) and isinstance(y, Str):
        r = Veq().eq(x, y)
        return gnot(r) if negate else r
    raise EngineError('PartialEq on %s / %s' % (type(x).__name__, type(y).__name__))


def _single_bool(I, fr, outs):
    """collapse Outs of a boolean-valued pure call into (value, panics)"""
    if not isinstance(outs, Outs) and not isinstance(outs, list):
        return outs, []
    val = None
    pan = []
    for o in outs:
        if o.kind == 'panic':
            pan.append(o)
        else:
            val = o.value if val is None else gite(o.guard, o.value, val)
    return val, pan


def seq_eq(I, fr, xs, ys, negate):
    acc = True
    pans = []
    for x, y in zip(xs, ys):
        r, p = _single_bool(I, fr, value_eq_call(I, fr, x, y))
        pans.extend(p)
        acc = gand(acc, r)
    res = Outs([ret(gnot(acc) if negate else acc)])
    res.extend(pans)
    return res


def struct_eq(I, fr, x, y, negate):
    ds = []
    pans = []
    for v, (ga, fa) in x.alts.items():
        ib = y.alts.get(v)
        if ib is None:
            continue
        gb, fb = ib
        acc = gand(ga, gb)
        for p, q in zip(fa, fb):
            r, pn = _single_bool(I, fr, value_eq_call(I, fr, p, q))
            pans.extend(pn)
            acc = gand(acc, r)
        ds.append(acc)
    e = gor(*ds)
    res = Outs([ret(gnot(e) if negate else e)])
    res.extend(pans)
    return res


def m_partial_eq(I, fr, a, ck):
    return value_eq_call(I, fr, I.peel_all(a[0], fr), I.peel_all(a[1], fr), ck.method == 'ne')


def ordering_of(I, fr, x, y):
    """Ordering value of x.cmp(y) for ints (unsigned: usize ids) or via the crate's Ord/PartialOrd impl"""
    if isinstance(x, OrdId) and isinstance(y, OrdId) and x.atoms is y.atoms:
        return Adt('Ordering', {0: (x.rel(y, lambda i, j: i < j), ()), 1: (x.rel(y, lambda i, j: i == j), ()),
                                2: (x.rel(y, lambda i, j: i > j), ())}), []
    if isinstance(x, OrdId):
        x = x.bv()
    if isinstance(y, OrdId):
        y = y.bv()
    if isinstance(x, (int, z3.BitVecRef)) and isinstance(y, (int, z3.BitVecRef)):
        if isinstance(x, int) and isinstance(y, int):
            return mk('Ordering', 0 if x < y else (1 if x == y else 2)), []
        X = I.to_bv(x, 64)
        Y = I.to_bv(y, 64)
        lt = z3.ULT(X, Y)
        eq = X == Y
        return Adt('Ordering', {0: (lt, ()), 1: (eq, ()), 2: (z3.UGT(X, Y), ())}), []
    if isinstance(x, Adt):
        it = I.by_key.get((x.ty, 'Ord', 'cmp'))
        if it is None:
            raise Unsupported('Ord for ' + x.ty)
        outs = I.call_item(it, [mk_sref(x), mk_sref(y)], fr.mem)
        val = None
        pans = []
        for o in outs:
            if o.kind == 'panic':
                pans.append(o)
            else:
                val = o.value if val is None else merge(o.guard, o.value, val)
        return val, pans
    raise EngineError('cmp on %s' % type(x).__name__)


def partial_ordering_of(I, fr, x, y):
    if isinstance(x, Adt):
        it = I.by_key.get((x.ty, 'PartialOrd', 'partial_cmp'))
        if it is not None:
            outs = I.call_item(it, [mk_sref(x), mk_sref(y)], fr.mem)
            val = None
            pans = []
            for o in outs:
                if o.kind == 'panic':
                    pans.append(o)
                else:
                    val = o.value if val is None else merge(o.guard, o.value, val)
            return val, pans
    o, p = ordering_of(I, fr, x, y)
    return some(o), p


def m_partial_ord(I, fr, a, ck):
    x = I.peel_all(a[0], fr)
    y = I.peel_all(a[1], fr)
    m = ck.method
    if m == 'partial_cmp':
        v, p = partial_ordering_of(I, fr, x, y)
        r = Outs([ret(v)])
        r.extend(p)
        return r
    # lt le gt ge : default methods in terms of partial_cmp
    po, pans = partial_ordering_of(I, fr, x, y)
    # po : Option<Ordering>
    gl = ge = gg = False
    if 1 in po.alts:
        gs, (o,) = po.alts[1]
        for idx, (g, _) in o.alts.items():
            c = gand(gs, g)
            if idx == 0:
                gl = gor(gl, c)
            elif idx == 1:
                ge = gor(ge, c)
            else:
                gg = gor(gg, c)
    val = {'lt': gl, 'le': gor(gl, ge), 'gt': gg, 'ge': gor(gg, ge)}[m]
    r = Outs([ret(val)])
    r.extend(pans)
    return r


def m_ord_cmp(I, fr, a, ck):
    x = I.peel_all(a[0], fr)
    y = I.peel_all(a[1], fr)
    v, p = ordering_of(I, fr, x, y)
    r = Outs([ret(v)])
    r.extend(p)
    return r


# ------------------------------------------------------------------------------------------------ RefCell

def m_refcell_new(I, fr, a, ck):
    c = I.new_cell()
    m = dict(fr.mem)
    m[c] = CellState(a[0], 0)
    fr.mem = m
    return RefCellV(c)


def _refcell_of(I, fr, v):
    rc = I.peel_all(v, fr)
    if not isinstance(rc, RefCellV):
        raise EngineError('RefCell expected, got %s' % type(rc).__name__)
    return rc


def m_refcell_borrow(I, fr, a, ck):
    rc = _refcell_of(I, fr, a[0])
    st = fr.mem[rc.cell]
    if st.borrow < 0:
        return Outs([panic(True, 'RefCell already mutably borrowed')])
    m = dict(fr.mem)
    m[rc.cell] = CellState(st.content, st.borrow + 1)
    fr.mem = m
    return BorrowGuard(rc.cell, False)


def m_refcell_borrow_mut(I, fr, a, ck):
    rc = _refcell_of(I, fr, a[0])
    st = fr.mem[rc.cell]
    if st.borrow != 0:
        return Outs([panic(True, 'RefCell already borrowed')])
    m = dict(fr.mem)
    m[rc.cell] = CellState(st.content, -1)
    fr.mem = m
    return BorrowGuard(rc.cell, True)


def m_refcell_replace(I, fr, a, ck):
    rc = _refcell_of(I, fr, a[0])
    st = fr.mem[rc.cell]
    if st.borrow != 0:
        return Outs([panic(True, 'RefCell already borrowed')])
    m = dict(fr.mem)
    m[rc.cell] = CellState(a[1], 0)
    fr.mem = m
    return st.content


def m_refcell_take(I, fr, a, ck):
    """RefCell::take: returns the content and leaves Default::default() behind"""
    rc = _refcell_of(I, fr, a[0])
    st = fr.mem[rc.cell]
    if st.borrow != 0:
        return Outs([panic(True, 'RefCell already borrowed')])
    old = st.content
    if isinstance(old, RcV) and isinstance(old.inner, Adt) and old.inner.ty == 'BDD':
        new = mk_rc(mk('BDD', 0, []), I.cfg['rc_new_owned'])       # #[default] False
    elif isinstance(old, Seq):
        new = Seq(())
    elif isinstance(old, MapV):
        new = MapV(())
    elif isinstance(old, Str):
        new = Str('')
    elif isinstance(old, Adt) and old.ty == 'Option':
        new = NONE
    else:
        raise Unsupported('RefCell::take of %s' % type(old).__name__)
    m = dict(fr.mem)
    m[rc.cell] = CellState(new, 0)
    fr.mem = m
    return old


def m_guard_deref(I, fr, a, ck):
    g = I.peel_all(a[0], fr)
    if not isinstance(g, BorrowGuard):
        raise EngineError('Ref/RefMut expected')
    return mk_sref(fr.mem[g.cell].content)


def m_guard_deref_mut(I, fr, a, ck):
    g = I.peel_all(a[0], fr)
    if not isinstance(g, BorrowGuard) or not g.mut:
        raise EngineError('RefMut expected')
    return MRef(g.cell, ())


# ------------------------------------------------------------------------------------------------ the unique table

def is_leaf_key(k):
    return isinstance(k, Adt) and k.ty == 'BDD'


def m_table_get(I, fr, a, ck):
    t = I.peel_all(a[0], fr)
    key = I.peel_all(a[1], fr)
    if isinstance(t, MapV):
        return map_get(I, fr, t, key)
    if not isinstance(t, TableV):
        raise EngineError('HashMap::get on %s' % type(t).__name__)
    I.stats['lookups'] += 1
    if not isinstance(key, Adt) or key.ty != 'BDD':
        raise EngineError('table key is %s' % type(key).__name__)
    # leaves are always present (part of the invariant established by new()); other keys may hit or miss
    leaf = gor(*[gand(g, t.leaves[idx]) for idx, (g, fs) in key.alts.items() if idx in (0, 1)])
    mode = I.cfg.get('table_mode', 'free')
    inner = gor(*[g for idx, (g, fs) in key.alts.items() if idx not in (0, 1)])
    if mode == 'free':
        hit = gor(leaf, gand(inner, I.fresh_bool('hit')))
    elif mode == 'miss':
        hit = leaf
    else:
        hit = gor(leaf, inner)
    entry = mk_rc(key, True)       # invariant: the entry's content is structurally the key; it is table-owned
    return option(I, hit, mk_sref(entry))


def m_table_insert(I, fr, a, ck):
    r = a[0]
    t = I.peel_all(r, fr)
    if isinstance(t, MapV):
        return map_insert(I, fr, r, t, a[1], a[2])
    if not isinstance(t, TableV):
        raise EngineError('HashMap::insert on %s' % type(t).__name__)
    key, val = a[1], a[2]
    if t.swept is not None:
        nt = TableV(t.tag, t.leaves)
        if isinstance(r, MRef):
            write_mref(I, fr, r, nt)
    # preservation of the invariant: key == *val (obligation collected by the harness)
    if isinstance(val, RcV):
        I.insert_obligations.append((key, val.inner))
        if I.prov is not None:
            # the inserted allocation becomes table-owned under the (function-relative) guard of this insert
            ow = val.owned
            if isinstance(ow, Prov):
                for tok, g in ow.alts.items():
                    if tok != 'T':
                        I.prov['inserted'][tok] = gor(I.prov['inserted'].get(tok, False), gand(I.cur_guard, g))
    else:
        raise EngineError('table value is %s' % type(val).__name__)
    return NONE


def m_table_len(I, fr, a, ck):
    t = I.peel_all(a[0], fr)
    if isinstance(t, MapV):
        return len(t.items)
    if isinstance(t, TableV):
        if t.lenv is None:
            t.lenv = I.fresh_bv('tablelen')       # one unknown size per table state
        return t.lenv
    return I.fresh_bv('tablelen')


def m_table_retain(I, fr, a, ck):
    """HashMap::retain on the unique table: the unknown inner entries stay unknown (every lookup is free to miss
    anyway); the two leaf entries are kept exactly when the predicate keeps them"""
    r = a[0]
    t = I.peel_all(r, fr)
    if not isinstance(t, TableV):
        raise Unsupported('HashMap::retain on %s' % type(t).__name__)
    cid = a[1].cid if isinstance(a[1], Closure) else id(a[1])
    if t.swept == cid:
        # swept again with the same predicate and no insert in between: one modelled sweep already stands for any
        # number of them (each leaf survives under an unconstrained condition), so this is a fixed point
        return UNIT
    keep = []
    pans = []
    for idx in (0, 1):
        leaf = mk('BDD', idx, [])
        cell = I.new_cell()
        m = dict(fr.mem)
        m[cell] = mk_rc(leaf, True)
        fr.mem = m
        val = None
        for o in call_mut_closure(I, fr, a[1], [mk_sref(leaf), MRef(cell, ())]):
            if o.kind == 'panic':
                pans.append(o)
            else:
                val = o.value if val is None else merge(o.guard, o.value, val)
        keep.append(gand(t.leaves[idx], val if val is not None else False))
    nt = TableV(t.tag, (keep[0], keep[1]))
    nt.swept = cid
    write_mref(I, fr, r, nt)
    if pans:
        return Outs([ret(UNIT)] + pans)
    return UNIT


def m_rc_strong_count(I, fr, a, ck):
    # reference counts do not exist in value semantics: any count >= 1 is possible
    return I.fresh_bv('strong_count')


def m_map_default(I, fr, a, ck):
    return MapV(())


def map_get(I, fr, t, key):
    """association list, newest entry wins; key equality may be symbolic"""
    res = NONE
    pans = []
    for g, k, v in t.items:
        e, p = _single_bool(I, fr, value_eq_call(I, fr, k, key))
        pans.extend(p)
        c = gand(g, e)
        if g_true(c):
            res = some(mk_sref(v))
        elif not g_false(c):
            res = merge(c, some(mk_sref(v)), res)
    if pans:
        out = Outs([ret(res)])
        out.extend(pans)
        return out
    return res


def map_insert(I, fr, r, t, key, val):
    """append (newest wins on lookup); returns the previous value for the key as Option"""
    old = map_get(I, fr, t, key)
    if isinstance(old, Outs):
        raise EngineError('panic inside key comparison of a map insert')
    # Option<&V> -> Option<V>
    alts = {}
    for idx, (g, fs) in old.alts.items():
        alts[idx] = (g, tuple(f.val if isinstance(f, SRef) else f for f in fs))
    write_mref(I, fr, r, MapV(t.items + ((True, key, val),)))
    return Adt('Option', alts)


# ------------------------------------------------------------------------------------------------ Option / Result

def m_option_expect(I, fr, a, ck):
    v = a[0]
    if not isinstance(v, Adt):
        raise EngineError('expect on %s' % type(v).__name__)
    return guarded_unwrap(I, v, 'expect', 'expect/unwrap failed (%s::%s)' % (v.ty, ck.method))


def m_try_branch(I, fr, a, ck):
    v = a[0]
    # Result<T,E> -> ControlFlow<Result<Infallible,E>, T>;  Option<T> -> ControlFlow<Option<Infallible>, T>
    alts = {}
    if v.ty == 'Result':
        if 0 in v.alts:
            alts[0] = (v.alts[0][0], (v.alts[0][1][0],))
        if 1 in v.alts:
            alts[1] = (v.alts[1][0], (mk('Result', 1, [v.alts[1][1][0]]),))
    elif v.ty == 'Option':
        if 1 in v.alts:
            alts[0] = (v.alts[1][0], (v.alts[1][1][0],))
        if 0 in v.alts:
            alts[1] = (v.alts[0][0], (NONE,))
    else:
        raise EngineError('Try::branch on ' + v.ty)
    return Adt('ControlFlow', alts)


def m_from_residual(I, fr, a, ck):
    v = a[0]
    if v.ty == 'Result':
        # Err(e) -> Err(From::from(e)) : error conversion is identity / opaque
        return v
    if v.ty == 'Option':
        return NONE
    raise EngineError('from_residual on ' + v.ty)


def m_is_some(I, fr, a, ck):
    v = I.peel_all(a[0], fr)
    idx = {'is_some': ('Option', 1), 'is_none': ('Option', 0), 'is_ok': ('Result', 0), 'is_err': ('Result', 1)}[ck.method]
    alt = v.alts.get(idx[1])
    return alt[0] if alt else False


def call_closure(I, fr, f, args):
    """call closure / fn item / python callable with argument list; returns list of outcomes"""
    return I.call_value(fr, f, args)


def m_option_map_or_else(I, fr, a, ck):
    v, dflt, f = a
    res = Outs()
    if 0 in v.alts and not g_false(v.alts[0][0]):
        for o in call_closure(I, fr, dflt, []):
            res.append(Outcome(o.kind, gand(v.alts[0][0], o.guard), o.value, o.mem, o.msg))
    if 1 in v.alts and not g_false(v.alts[1][0]):
        for o in call_closure(I, fr, f, [v.alts[1][1][0]]):
            res.append(Outcome(o.kind, gand(v.alts[1][0], o.guard), o.value, o.mem, o.msg))
    return res


def m_option_unwrap_or_else(I, fr, a, ck):
    v, f = a
    res = Outs()
    if 0 in v.alts and not g_false(v.alts[0][0]):
        for o in call_closure(I, fr, f, []):
            res.append(Outcome(o.kind, gand(v.alts[0][0], o.guard), o.value, o.mem, o.msg))
    if 1 in v.alts and not g_false(v.alts[1][0]):
        res.append(ret(v.alts[1][1][0], v.alts[1][0]))
    return res


def m_result_unwrap_or_else(I, fr, a, ck):
    v, f = a
    res = Outs()
    if 1 in v.alts and not g_false(v.alts[1][0]):
        for o in call_closure(I, fr, f, [v.alts[1][1][0]]):
            res.append(Outcome(o.kind, gand(v.alts[1][0], o.guard), o.value, o.mem, o.msg))
    if 0 in v.alts and not g_false(v.alts[0][0]):
        res.append(ret(v.alts[0][1][0], v.alts[0][0]))
    return res


def m_option_ok_or_else(I, fr, a, ck):
    v, f = a
    alts = {}
    if 1 in v.alts:
        alts[0] = (v.alts[1][0], (v.alts[1][1][0],))
    if 0 in v.alts:
        alts[1] = (v.alts[0][0], (Opaque('error'),))
    return Adt('Result', alts)


def m_option_cloned(I, fr, a, ck):
    v = a[0]
    alts = {}
    for idx, (g, fs) in v.alts.items():
        alts[idx] = (g, tuple(I.peel_all(f, fr) if isinstance(f, SRef) else f for f in fs))
    return Adt(v.ty, alts)


# ------------------------------------------------------------------------------------------------ panics / fmt

def m_panic(I, fr, a, ck):
    msg = 'panic'
    if a:
        v = a[0]
        if isinstance(v, SRef) and isinstance(v.val, Str):
            msg = 'panic: ' + str(v.val.s)[:60]
        elif isinstance(v, Opaque) and v.payload is not None:
            pl = v.payload[0] if isinstance(v.payload, tuple) else v.payload
            msg = 'panic: ' + str(pl)[:80]
    return Outs([panic(True, msg + ' @' + fr.item.last)])


def m_opaque(tag):
    def f(I, fr, a, ck):
        pl = None
        for x in a:
            if isinstance(x, SRef) and isinstance(x.val, Opaque) and x.val.tag == 'bytes':
                pl = x.val.payload
            if isinstance(x, SRef) and isinstance(x.val, Str):
                pl = x.val.s
        return Opaque(tag, pl)
    return f


def m_unit(I, fr, a, ck):
    return UNIT


def m_io_error_new(I, fr, a, ck):
    return Opaque('io::Error')


def _display(v):
    if isinstance(v, SRef):
        return _display(v.val)
    if isinstance(v, (RcV, BoxV)):
        return _display(v.inner)
    if isinstance(v, Str):
        return v.s if isinstance(v.s, str) else None
    if isinstance(v, bool):
        return 'true' if v else 'false'
    if isinstance(v, int):
        return str(v)
    if isinstance(v, Adt) and v.ty == 'NamedSymbol':
        return _display(v.alts[0][1][0])
    return None


def text_concat(parts):
    """TextAlts of the concatenation of TextAlts / python str parts"""
    alts = [(True, ())]
    for x in parts:
        xs = TextAlts.of(x).alts
        alts = [(gand(g, g2), p + p2) for g, p in alts for g2, p2 in xs if not g_false(gand(g, g2))]
    return TextAlts(alts)


def display_prop(I, v):
    """propositional symbolic text of a Display / Debug / Pointer argument (format_symbolic == 'prop'), or None"""
    if isinstance(v, SRef):
        return display_prop(I, v.val)
    if isinstance(v, (RcV, BoxV)):
        return display_prop(I, v.inner)
    if isinstance(v, AddrV):
        return TextAlts([(True, (('addr', v),))])
    if isinstance(v, Str):
        return TextAlts.of(v.s)
    if isinstance(v, bool):
        return TextAlts.of('true' if v else 'false')
    if isinstance(v, int):
        return TextAlts.of(str(v))
    if isinstance(v, OrdId):
        v = v.bv()
    if isinstance(v, z3.BitVecRef):
        return TextAlts([(True, (('int', v),))])
    if isinstance(v, Adt) and v.ty == 'NamedSymbol' and len(v.alts) == 1:
        return display_prop(I, v.alts[0][1][0])
    if isinstance(v, Adt) and v.ty in I.defs.enums and all(len(fs) == 0 for g, fs in v.alts.values()):
        # derived Debug of a field-less enum: the variant's name
        return TextAlts([(g, (I.defs.enums[v.ty][idx],)) for idx, (g, fs) in v.alts.items()])
    return None


def _display_sym(v):
    if isinstance(v, SRef):
        return _display_sym(v.val)
    if isinstance(v, AddrV):
        return ('addr', v)
    if isinstance(v, Str) and isinstance(v.s, TextAlts):
        return v.s
    if isinstance(v, (RcV, BoxV)):
        return _display_sym(v.inner)
    if isinstance(v, Str) and not isinstance(v.s, str):
        return v.s
    if isinstance(v, Adt) and v.ty == 'NamedSymbol' and len(v.alts) == 1:
        return _display_sym(v.alts[0][1][0])
    return None


def m_format(I, fr, a, ck):
    """alloc::fmt::format: rendered exactly when the template (length-prefixed literals, 0xC0 = next argument) and all
    arguments are concrete and displayable; otherwise an opaque placeholder string"""
    args = a[0]
    if isinstance(args, Opaque) and isinstance(args.payload, tuple):
        tmpl, vals = args.payload
        if isinstance(tmpl, (bytes, bytearray)):
            out = []
            i = 0
            k = 0
            ok = True
            while i < len(tmpl):
                b = tmpl[i]
                if b == 0:
                    break
                if b == 0xC0:
                    if k >= len(vals):
                        ok = False
                        break
                    d = _display(vals[k])
                    if d is None and I.cfg.get('format_symbolic') == 'prop':
                        d = display_prop(I, vals[k])
                    elif d is None and I.cfg.get('format_symbolic'):
                        d = _display_sym(vals[k])
                    if d is None:
                        ok = False
                        break
                    out.append(d)
                    k += 1
                    i += 1
                elif b < 0x80:
                    out.append(tmpl[i + 1:i + 1 + b].decode('utf-8', 'replace'))
                    i += 1 + b
                else:
                    ok = False
                    break
            if ok and all(isinstance(x, str) for x in out):
                return Str(''.join(out))
            if ok and any(isinstance(x, (tuple, TextAlts)) for x in out):
                # pointer / symbolic-text arguments: propositional symbolic text
                return Str(text_concat([x if isinstance(x, (str, TextAlts)) else TextAlts([(True, (x,))]) for x in out]))
            if ok:
                # some argument is a symbolic string: the rendering is the concatenation term
                parts = [x for x in out if not (isinstance(x, str) and x == '')]
                terms = [z3.StringVal(x) if isinstance(x, str) else x for x in parts]
                return Str(terms[0] if len(terms) == 1 else z3.Concat(*terms))
        elif isinstance(tmpl, str):
            return Str(tmpl)
    return Str(I.cfg.get('format_string', '<formatted>'))


def m_fmt_argument(I, fr, a, ck):
    return Opaque('fmt::Argument', a[0] if a else None)


def m_fmt_arguments(I, fr, a, ck):
    tmpl = None
    vals = []
    for x in a:
        v = x.val if isinstance(x, SRef) else x
        if isinstance(v, Opaque) and v.tag == 'bytes':
            tmpl = v.payload
        elif isinstance(v, Str) and isinstance(v.s, str) and tmpl is None:
            tmpl = v.s
        elif isinstance(v, Seq):
            vals = [e.payload if isinstance(e, Opaque) and e.tag == 'fmt::Argument' else e for e in v.items]
    return Opaque('fmt::Arguments', (tmpl, vals))


def m_must_use(I, fr, a, ck):
    return a[0]


# ------------------------------------------------------------------------------------------------ slices / Vec

def _seq(I, fr, v):
    s = I.peel_all(v, fr)
    if isinstance(s, BorrowGuard):
        s = fr.mem[s.cell].content
    if not isinstance(s, Seq):
        raise EngineError('sequence expected, got %s' % type(s).__name__)
    return s


def m_vec_new(I, fr, a, ck):
    return Seq(())


def m_vec_push(I, fr, a, ck):
    s = _seq(I, fr, a[0])
    write_mref(I, fr, a[0], Seq(s.items + (a[1],)))
    return UNIT


def m_len(I, fr, a, ck):
    return len(_seq(I, fr, a[0]).items)


def m_is_empty(I, fr, a, ck):
    return len(_seq(I, fr, a[0]).items) == 0


def m_vec_deref(I, fr, a, ck):
    r = a[0]
    if isinstance(r, MRef):
        return r
    s = I.peel_all(r, fr)
    if isinstance(s, Str):
        return mk_sref(s)
    return mk_sref(_seq(I, fr, r))


def m_vec_deref_mut(I, fr, a, ck):
    if not isinstance(a[0], MRef):
        raise EngineError('deref_mut on shared ref')
    return a[0]


def m_to_vec(I, fr, a, ck):
    return _seq(I, fr, a[0])


def m_seq_clone(I, fr, a, ck):
    return I.peel_all(a[0], fr)


def m_index_mut(I, fr, a, ck):
    r = a[0]
    if not isinstance(r, MRef):
        raise EngineError('index_mut on %s' % type(r).__name__)
    s = _seq(I, fr, r)
    idx = a[1]
    if isinstance(idx, OrdId):
        idx = idx.bv()
    n = len(s.items)
    if isinstance(idx, int):
        if idx < 0 or idx >= n:
            return Outs([panic(True, 'index out of bounds: the len is %d but the index is %d' % (n, idx))])
        return MRef(r.cell, r.path + (('index', idx),))
    inb = z3.ULT(idx, z3.BitVecVal(n, idx.size()))
    outs = Outs([panic(gnot(inb), 'index out of bounds (len %d, symbolic index)' % n)])
    if n:
        outs.append(ret(MRef(r.cell, r.path + (('index', idx),)), inb))
    return outs


def m_index(I, fr, a, ck):
    s = _seq(I, fr, a[0])
    idx = a[1]
    if isinstance(idx, OrdId):
        idx = idx.bv()
    n = len(s.items)
    if isinstance(idx, Adt) and idx.ty in ('RangeFrom', 'Range', 'RangeTo', 'RangeFull', 'RangeInclusive'):
        fs = idx.alts[0][1]
        lo = fs[0] if idx.ty in ('RangeFrom', 'Range') else 0
        hi = fs[1] if idx.ty == 'Range' else (fs[0] if idx.ty == 'RangeTo' else n)
        if not isinstance(lo, int) or not isinstance(hi, int):
            raise EngineError('symbolic slice range')
        if lo > hi or hi > n:
            return Outs([panic(True, 'slice index out of range')])
        return mk_sref(Seq(s.items[lo:hi]))
    if isinstance(idx, int):
        if idx < 0 or idx >= n:
            return Outs([panic(True, 'index out of bounds: the len is %d but the index is %d' % (n, idx))])
        return mk_sref(s.items[idx])
    if isinstance(idx, z3.BitVecRef):
        inb = z3.ULT(idx, z3.BitVecVal(n, idx.size()))
        outs = Outs()
        outs.append(panic(gnot(inb), 'index out of bounds (len %d, symbolic index)' % n))
        if n:
            outs.append(ret(mk_sref(I.index_read(s, idx)), inb))
        return outs
    raise EngineError('index with %s' % type(idx).__name__)


def m_slice_get(I, fr, a, ck):
    s = _seq(I, fr, a[0])
    idx = a[1]
    n = len(s.items)
    if isinstance(idx, Adt) and idx.ty in ('RangeFrom', 'Range', 'RangeTo'):
        fs = idx.alts[0][1]
        lo = fs[0] if idx.ty in ('RangeFrom', 'Range') else 0
        hi = fs[1] if idx.ty == 'Range' else (fs[0] if idx.ty == 'RangeTo' else n)
        if isinstance(lo, int) and isinstance(hi, int):
            if lo > hi or hi > n:
                return NONE
            return some(mk_sref(Seq(s.items[lo:hi])))
        # symbolic upper bound with concrete lower bound 0 is handled by the caller models (generate_graph)
        if isinstance(lo, int) and not isinstance(hi, int):
            # symbolic upper bound: one outcome per concrete length, None when out of range
            H = I.to_bv(hi, 64)
            outs = Outs()
            for h in range(lo, n + 1):
                outs.append(ret(some(mk_sref(Seq(s.items[lo:h]))), H == z3.BitVecVal(h, 64)))
            outs.append(ret(NONE, z3.Or(z3.UGT(H, z3.BitVecVal(n, 64)), z3.ULT(H, z3.BitVecVal(lo, 64)))))
            return outs
        raise EngineError('symbolic slice.get range')
    if isinstance(idx, int):
        return some(mk_sref(s.items[idx])) if 0 <= idx < n else NONE
    if isinstance(idx, OrdId):
        idx = idx.bv()
    if isinstance(idx, z3.BitVecRef):
        # a symbolic position: Some(&items[i]) under idx == i, None beyond the length
        res = NONE
        for i in range(n - 1, -1, -1):
            res = merge(idx == z3.BitVecVal(i, idx.size()), some(mk_sref(s.items[i])), res)
        return res
    raise EngineError('slice.get with %s' % type(idx).__name__)


def m_slice_contains(I, fr, a, ck):
    s = _seq(I, fr, a[0])
    x = I.peel_all(a[1], fr)
    acc = False
    pans = []
    for it in s.items:
        r, p = _single_bool(I, fr, value_eq_call(I, fr, it, x))
        pans.extend(p)
        acc = gor(acc, r)
    res = Outs([ret(acc)])
    res.extend(pans)
    return res


def m_slice_last(I, fr, a, ck):
    s = _seq(I, fr, a[0])
    if not s.items:
        return NONE
    return some(mk_sref(s.items[-1]))


def m_slice_first(I, fr, a, ck):
    s = _seq(I, fr, a[0])
    if not s.items:
        return NONE
    return some(mk_sref(s.items[0]))


# ------------------------------------------------------------------------------------------------ iterators
# IterV kinds:  ('slice', seq, pos)  yields &item     ('vals', seq, pos) yields item (IntoIter / cloned)
#               ('range', lo, hi)    ('map', inner, f)   ('enumerate', inner, n)   ('peekable', inner, peeked)
#               ('filter_map', inner, f)   ('unique', inner, seen Seq)  ('cloned', inner)  ('chain', a, b)

def m_slice_iter(I, fr, a, ck):
    s = I.peel_all(a[0], fr)
    if isinstance(s, Seq):
        return IterV('slice', [s, 0])
    raise EngineError('iter() on %s' % type(s).__name__)


def m_into_iter(I, fr, a, ck):
    v = a[0]
    if isinstance(v, IterV):
        return v
    if isinstance(v, Seq):
        return IterV('vals', [v, 0])
    if isinstance(v, (SRef, MRef)):
        s = I.peel_all(v, fr)
        if isinstance(s, Seq):
            return IterV('slice', [s, 0])
    if isinstance(v, Adt) and v.ty == 'Range':
        return IterV('range', list(v.alts[0][1]))
    raise EngineError('into_iter on %s' % type(v).__name__)


def m_iter_adapt(kind):
    def f(I, fr, a, ck):
        if kind == 'map' or kind == 'filter_map':
            return IterV(kind, [to_iter(I, fr, a[0]), a[1]])
        if kind == 'enumerate':
            return IterV('enumerate', [to_iter(I, fr, a[0]), 0])
        if kind == 'peekable':
            return IterV('peekable', [to_iter(I, fr, a[0]), mk('PeekState', 0, [])])
        if kind == 'cloned' or kind == 'copied':
            return IterV('cloned', [to_iter(I, fr, a[0])])
        if kind == 'unique':
            return IterV('unique', [to_iter(I, fr, a[0]), Seq(())])
        if kind == 'chain':
            return IterV('chain', [to_iter(I, fr, a[0]), to_iter(I, fr, m_into_iter(I, fr, [a[1]], ck))])
        raise EngineError(kind)
    return f


def to_iter(I, fr, v):
    if isinstance(v, IterV):
        return v
    if isinstance(v, Adt) and v.ty == 'Range':
        return IterV('range', list(v.alts[0][1]))
    raise EngineError('iterator expected, got %s' % type(v).__name__)


def iter_next(I, fr, it):
    """-> list of (guard, item_or_None, new_iter, mem) ; concrete-length iteration"""
    k = it.kind
    if k == 'slice' or k == 'vals':
        s, pos = it.fields
        if pos >= len(s.items):
            return [(True, None, it)]
        x = s.items[pos]
        return [(True, mk_sref(x) if k == 'slice' else x, IterV(k, [s, pos + 1]))]
    if k == 'range':
        lo, hi = it.fields
        if not isinstance(lo, int) or not isinstance(hi, int):
            raise EngineError('symbolic range iteration')
        if lo >= hi:
            return [(True, None, it)]
        return [(True, lo, IterV('range', [lo + 1, hi]))]
    if k == 'cloned':
        out = []
        for g, x, ni in iter_next(I, fr, it.fields[0]):
            out.append((g, None if x is None else I.peel_all(x, fr), IterV('cloned', [ni])))
        return out
    if k == 'enumerate':
        out = []
        for g, x, ni in iter_next(I, fr, it.fields[0]):
            n = it.fields[1]
            out.append((g, None if x is None else mk_tuple([n, x]), IterV('enumerate', [ni, n + (0 if x is None else 1)])))
        return out
    if k == 'chain':
        out = []
        for g, x, ni in iter_next(I, fr, it.fields[0]):
            if x is None:
                for g2, y, nj in iter_next(I, fr, it.fields[1]):
                    out.append((gand(g, g2), y, IterV('chain', [ni, nj])))
            else:
                out.append((g, x, IterV('chain', [ni, it.fields[1]])))
        return out
    if k == 'map':
        out = []
        for g, x, ni in iter_next(I, fr, it.fields[0]):
            if x is None:
                out.append((g, None, IterV('map', [ni, it.fields[1]])))
            else:
                f = it.fields[1]
                for o in call_mut_closure(I, fr, f, [x]):
                    if o.kind == 'panic':
                        out.append((gand(g, o.guard), o, None))
                    else:
                        fr.mem = o.mem
                        out.append((gand(g, o.guard), o.value, IterV('map', [ni, f])))
        return out
    if k == 'unique':
        # itertools::unique: yields items not seen before (Eq + Hash of the item type; the crate's PartialEq is used)
        out = []
        inner, seen = it.fields
        for g, x, ni in iter_next(I, fr, inner):
            if x is None or isinstance(x, Outcome):
                out.append((g, x, IterV('unique', [ni, seen]) if ni is not None else None))
                continue
            dup = False
            for sx in seen.items:
                e, p = _single_bool(I, fr, value_eq_call(I, fr, I.peel_all(sx, fr) if isinstance(sx, SRef) else sx, I.peel_all(x, fr) if isinstance(x, SRef) else x))
                dup = gor(dup, e)
            if not g_true(dup):
                out.append((gand(g, gnot(dup)), x, IterV('unique', [ni, Seq(seen.items + (x,))])))
            if not g_false(dup):
                for g2, y, nj in iter_next(I, fr, IterV('unique', [ni, seen])):
                    out.append((gand(g, dup, g2), y, nj))
        return out
    if k == 'filter_map':
        out = []
        inner, f = it.fields
        for g, x, ni in iter_next(I, fr, inner):
            if x is None or isinstance(x, Outcome):
                out.append((g, x, IterV('filter_map', [ni, f]) if ni is not None else None))
                continue
            for o in call_mut_closure(I, fr, f, [x]):
                if o.kind == 'panic':
                    out.append((gand(g, o.guard), o, None))
                    continue
                opt = o.value
                gg = gand(g, o.guard)
                if 1 in opt.alts and not g_false(opt.alts[1][0]):
                    out.append((gand(gg, opt.alts[1][0]), opt.alts[1][1][0], IterV('filter_map', [ni, f])))
                if 0 in opt.alts and not g_false(opt.alts[0][0]):
                    for g2, y, nj in iter_next(I, fr, IterV('filter_map', [ni, f])):
                        out.append((gand(gg, opt.alts[0][0], g2), y, nj))
        return out
    if k == 'filter':
        out = []
        for g, x, ni in iter_next(I, fr, it.fields[0]):
            f = it.fields[1]
            if x is None or isinstance(x, Outcome):
                out.append((g, x, IterV('filter', [ni, f]) if ni is not None else None))
                continue
            v, p = _bool_of_call(I, fr, f, [mk_sref(x)])
            for o in p:
                out.append((gand(g, o.guard), o, None))
            if not g_false(v):
                out.append((gand(g, v), x, IterV('filter', [ni, f])))
            if not g_true(v):
                # skipped: continue with the rest
                for g2, y, nj in iter_next(I, fr, IterV('filter', [ni, f])):
                    out.append((gand(g, gnot(v), g2), y, nj))
        return out
    if k == 'take_while':
        inner, f, done = it.fields
        if done:
            return [(True, None, it)]
        out = []
        for g, x, ni in iter_next(I, fr, inner):
            if x is None or isinstance(x, Outcome):
                out.append((g, x, IterV('take_while', [ni, f, False]) if ni is not None else None))
                continue
            v, p = _bool_of_call(I, fr, f, [mk_sref(x)])
            for o in p:
                out.append((gand(g, o.guard), o, None))
            if not g_false(v):
                out.append((gand(g, v), x, IterV('take_while', [ni, f, False])))
            if not g_true(v):
                out.append((gand(g, gnot(v)), None, IterV('take_while', [ni, f, True])))
        return out
    if k == 'zip':
        out = []
        for g, x, ni in iter_next(I, fr, it.fields[0]):
            if x is None or isinstance(x, Outcome):
                out.append((g, x, IterV('zip', [ni, it.fields[1]]) if ni is not None else None))
                continue
            for g2, y, nj in iter_next(I, fr, it.fields[1]):
                if y is None or isinstance(y, Outcome):
                    out.append((gand(g, g2), y, IterV('zip', [ni, nj]) if nj is not None else None))
                else:
                    out.append((gand(g, g2), mk_tuple([x, y]), IterV('zip', [ni, nj])))
        return out
    raise EngineError('next() on iterator kind ' + k)


def call_mut_closure(I, fr, f, args):
    if isinstance(f, Closure):
        it = I.by_closure.get(f.cid)
        if it is None:
            raise EngineError('no body for ' + f.cid)
        # FnMut closures take &mut self; captured state is never mutated by the closures in this crate, so a shared
        # snapshot is passed
        selfarg = mk_sref(f) if it.arg_types[0].lstrip().startswith('&') else f
        return I.call_item(it, [selfarg] + list(args), fr.mem)
    return I.call_value(fr, f, args)


def m_iter_next(I, fr, a, ck):
    r = a[0]
    it = I.peel_all(r, fr)
    if not isinstance(it, IterV):
        raise EngineError('next on %s' % type(it).__name__)
    if it.kind == 'peekable':
        return peekable_next(I, fr, r, it)
    res = Outs()
    for g, x, ni in iter_next(I, fr, it):
        if isinstance(x, Outcome):
            res.append(x if g_true(g) else Outcome('panic', g, None, None, x.msg))
            continue
        m = dict(fr.mem)
        m[r.cell] = set_mpath(I, fr.mem[r.cell], r.path, ni)
        res.append(Outcome('ret', g, NONE if x is None else some(x), m))
    return res


# Peekable: field 1 is PeekState: 0 = not peeked, 1 = peeked(Option<item>)
def peekable_fill(I, fr, it):
    """-> list of (guard, peeked_option, inner_after)"""
    ps = it.fields[1]
    if 1 in ps.alts:
        return [(True, ps.alts[1][1][0], it.fields[0])]
    out = []
    for g, x, ni in iter_next(I, fr, it.fields[0]):
        out.append((g, NONE if x is None else some(x), ni))
    return out


def m_peekable_peek(I, fr, a, ck):
    r = a[0]
    it = I.peel_all(r, fr)
    res = Outs()
    for g, opt, ni in peekable_fill(I, fr, it):
        new = IterV('peekable', [ni, mk('PeekState', 1, [opt])])
        m = dict(fr.mem)
        m[r.cell] = set_mpath(I, fr.mem[r.cell], r.path, new)
        # peek returns Option<&Item>
        alts = {}
        for idx, (gg, fs) in opt.alts.items():
            alts[idx] = (gg, tuple(mk_sref(f) for f in fs))
        res.append(Outcome('ret', g, Adt('Option', alts), m))
    return res


def peekable_next(I, fr, r, it):
    res = Outs()
    for g, opt, ni in peekable_fill(I, fr, it):
        new = IterV('peekable', [ni, mk('PeekState', 0, [])])
        m = dict(fr.mem)
        m[r.cell] = set_mpath(I, fr.mem[r.cell], r.path, new)
        res.append(Outcome('ret', g, opt, m))
    return res


def drain(I, fr, it, limit=64):
    """run an iterator to exhaustion -> list of (guard, [items], mem) ; forks are kept apart"""
    results = []
    work = [(True, it, [], fr.mem)]
    while work:
        g, cur, acc, mem = work.pop()
        if len(acc) > limit:
            raise EngineError('iteration bound exceeded')
        fr.mem = mem
        for g2, x, ni in iter_next(I, fr, cur):
            gg = gand(g, g2)
            if isinstance(x, Outcome):
                results.append((gg, x, None))
            elif x is None:
                results.append((gg, acc, fr.mem))
            else:
                work.append((gg, ni, acc + [x], fr.mem))
    return results


def m_collect(I, fr, a, ck):
    it = to_iter(I, fr, a[0])
    res = Outs()
    for g, acc, mem in drain(I, fr, it):
        if isinstance(acc, Outcome):
            res.append(Outcome('panic', g, None, None, acc.msg))
        else:
            res.append(Outcome('ret', g, Seq(acc), mem))
    return res


def m_option_flatten(I, fr, a, ck):
    """Option<Option<T>>::flatten"""
    v = a[0]
    res = NONE
    if 1 in v.alts and not g_false(v.alts[1][0]):
        inner = v.alts[1][1][0]
        res = merge(v.alts[1][0], inner, NONE) if 0 in v.alts and not g_false(v.alts[0][0]) else inner
    return res


def m_mem_drop(I, fr, a, ck):
    """std::mem::drop(x): what the MIR drop terminator does to a value (RefCell guards release their borrow)"""
    I.drop_value(fr, a[0])
    return UNIT


def m_option_unwrap_or_default(I, fr, a, ck):
    """Option<T>::unwrap_or_default for the T this code base uses it with (Vec / String / integers by the call's type)"""
    v = a[0]
    raw = ck.raw or ''
    m = re.match(r'^Option::<(.*)>::unwrap_or_default', raw)
    ty = m.group(1).strip() if m else ''
    if ty.startswith('Vec<'):
        d = Seq(())
    elif ty in ('String', 'std::string::String'):
        d = Str('')
    elif ty in ('usize', 'u64', 'i64', 'u32', 'i32'):
        d = 0
    elif ty == 'bool':
        d = False
    else:
        raise Unsupported('unwrap_or_default of Option<%s>' % ty)
    res = d
    if 1 in v.alts:
        res = merge(v.alts[1][0], v.alts[1][1][0], d) if 0 in v.alts and not g_false(v.alts[0][0]) else v.alts[1][1][0]
    return res


def m_vec_split_off(I, fr, a, ck):
    """Vec::split_off(at): self keeps [0, at), returns [at, len); panics when at > len"""
    s = _seq(I, fr, a[0])
    at = a[1]
    if not isinstance(at, int):
        raise Unsupported('split_off at a symbolic index')
    if at > len(s.items):
        return Outs([panic(True, '`at` split index (is %d) should be <= len (is %d)' % (at, len(s.items)))])
    write_mref(I, fr, a[0], Seq(s.items[:at]))
    return Seq(s.items[at:])


def m_itertools_join(I, fr, a, ck):
    """Itertools::join(sep): Display of every item, separated"""
    it = to_iter(I, fr, I.peel_all(a[0], fr) if isinstance(a[0], (SRef, MRef)) else a[0])
    sep = I.peel_all(a[1], fr)
    res = Outs()
    for g, acc, mem in drain(I, fr, it):
        if isinstance(acc, Outcome):
            res.append(Outcome('panic', g, None, None, acc.msg))
            continue
        fr2 = fr
        res.append(Outcome('ret', g, m_slice_join(I, fr2, [Seq([I.peel_all(x, fr) if isinstance(x, (SRef, MRef)) else x for x in acc]), sep], ck), mem))
    return res


def m_iter_any(I, fr, a, ck):
    it = to_iter(I, fr, I.peel_all(a[0], fr) if isinstance(a[0], (SRef, MRef)) else a[0])
    f = a[1]
    res = Outs()
    for g, acc, mem in drain(I, fr, it):
        if isinstance(acc, Outcome):
            res.append(Outcome('panic', g, None, None, acc.msg))
            continue
        val = False
        pg = g
        fr.mem = mem
        # short-circuit semantics: later calls only happen when earlier ones returned false; the closures are pure and
        # panic-free predicates here, so evaluating all and or-ing is equivalent up to panics, which are guarded below
        notyet = True
        for x in acc:
            for o in call_mut_closure(I, fr, f, [x]):
                if o.kind == 'panic':
                    res.append(Outcome('panic', gand(g, notyet, o.guard), None, None, o.msg))
                else:
                    v = o.value
                    val = gor(val, gand(notyet, o.guard, v))
            notyet = gand(notyet, gnot(val))
        res.append(Outcome('ret', g, val, mem))
    return res


def m_iter_fold(I, fr, a, ck):
    it = to_iter(I, fr, a[0])
    init, f = a[1], a[2]
    res = Outs()
    for g, acc, mem in drain(I, fr, it):
        if isinstance(acc, Outcome):
            res.append(Outcome('panic', g, None, None, acc.msg))
            continue
        states = [(g, init, mem)]
        for x in acc:
            nxt = []
            for sg, sv, sm in states:
                fr.mem = sm
                for o in call_mut_closure(I, fr, f, [sv, x]):
                    if o.kind == 'panic':
                        res.append(Outcome('panic', gand(sg, o.guard), None, None, o.msg))
                    else:
                        nxt.append((gand(sg, o.guard), o.value, o.mem))
            states = nxt
        for sg, sv, sm in states:
            res.append(Outcome('ret', sg, sv, sm))
    return res


# ------------------------------------------------------------------------------------------------ Fn traits

def m_fn_call(I, fr, a, ck):
    f = I.peel_all(a[0], fr)
    tup = a[1]
    args = list(tup.alts[0][1]) if isinstance(tup, Adt) else []
    return I.call_value(fr, f, args)


# ------------------------------------------------------------------------------------------------ strings

def m_str_eq(I, fr, a, ck):
    x = I.peel_all(a[0], fr)
    y = I.peel_all(a[1], fr)
    if not isinstance(x, Str) or not isinstance(y, Str):
        raise EngineError('str eq on %s/%s' % (type(x).__name__, type(y).__name__))
    r = Veq().eq(x, y)
    return gnot(r) if ck.method == 'ne' else r


def m_to_string(I, fr, a, ck):
    x = I.peel_all(a[0], fr)
    if isinstance(x, Str):
        return x
    return Str('<display>')


def m_string_new(I, fr, a, ck):
    return Str('')


def m_string_deref(I, fr, a, ck):
    return mk_sref(I.peel_all(a[0], fr))


# ------------------------------------------------------------------------------------------------ Hash (C02)

def m_hash_write(I, fr, a, ck):
    """record the sequence of values written to the hasher (the hasher state is a Seq in the &mut H cell)"""
    h = a[1]
    v = I.peel_all(a[0], fr)
    if isinstance(v, (RcV, BoxV)):
        # <Rc<T> as Hash>::hash = (**self).hash(state)
        inner = v.inner
        it = I.by_key.get((inner.ty, 'Hash', 'hash')) if isinstance(inner, Adt) else None
        if it is None:
            if isinstance(inner, (Str, int, bool, z3.ExprRef, OrdId)):
                cur = I.peel_all(h, fr)
                write_mref(I, fr, h, Seq(cur.items + (inner,)))
                return UNIT
            raise Unsupported('Hash of Rc<%s>' % type(inner).__name__)
        return I.call_item(it, [mk_sref(inner), h], fr.mem)
    if isinstance(v, Adt):
        it = I.by_key.get((v.ty, 'Hash', 'hash'))
        if it is None:
            raise Unsupported('Hash of ' + v.ty)
        return I.call_item(it, [mk_sref(v), h], fr.mem)
    cur = I.peel_all(h, fr)
    if not isinstance(cur, Seq):
        raise EngineError('hasher state')
    write_mref(I, fr, h, Seq(cur.items + (v,)))
    return UNIT


def m_ptr_hash(I, fr, a, ck):
    return m_hash_write(I, fr, a, ck)


def m_discriminant_value(I, fr, a, ck):
    v = I.peel_all(a[0], fr)
    return Disc(v)


# ------------------------------------------------------------------------------------------------ registration

def register_all(M):
    A = M.add
    for t in ('Rc',):
        A(t, None, 'new', m_rc_new)
        A(t, 'Clone', 'clone', m_rc_clone)
        A(t, 'AsRef', 'as_ref', m_rc_as_ref)
        A(t, 'Deref', 'deref', m_rc_as_ref)
        A(t, 'PartialEq', 'eq', m_rc_eq)
        A(t, 'PartialEq', 'ne', m_rc_eq)
        A(t, 'Hash', 'hash', m_hash_write)
    A('Box', None, 'new', m_box_new)
    A('Box', 'Clone', 'clone', m_identity_clone)
    A('Box', 'AsRef', 'as_ref', m_rc_as_ref)
    A('Box', 'Deref', 'deref', m_rc_as_ref)
    A('Box', 'PartialEq', 'eq', m_rc_eq)
    A('Box', 'PartialEq', 'ne', m_rc_eq)
    A('Box', 'Hash', 'hash', m_hash_write)
    A(None, 'Clone', 'clone', m_identity_clone)
    A(None, 'PartialEq', 'eq', m_partial_eq)
    A(None, 'PartialEq', 'ne', m_partial_eq)
    for m in ('lt', 'le', 'gt', 'ge', 'partial_cmp'):
        A(None, 'PartialOrd', m, m_partial_ord)
    A(None, 'Ord', 'cmp', m_ord_cmp)
    A('RefCell', None, 'new', m_refcell_new)
    A('RefCell', None, 'borrow', m_refcell_borrow)
    A('RefCell', None, 'borrow_mut', m_refcell_borrow_mut)
    A('RefCell', None, 'replace', m_refcell_replace)
    A('RefCell', None, 'take', m_refcell_take)
    A('Ref', 'Deref', 'deref', m_guard_deref)
    A('RefMut', 'Deref', 'deref', m_guard_deref)
    A('RefMut', 'DerefMut', 'deref_mut', m_guard_deref_mut)
    A('HashMap', None, 'get', m_table_get)
    A('HashMap', None, 'insert', m_table_insert)
    A('HashMap', None, 'len', m_table_len)
    A('HashMap', None, 'retain', m_table_retain)
    A('Rc', None, 'strong_count', m_rc_strong_count)
    A('HashMap', 'Default', 'default', m_map_default)
    A('Option', None, 'expect', m_option_expect)
    A('Option', None, 'unwrap', m_option_expect)
    A('Result', None, 'expect', m_option_expect)
    A('Result', None, 'unwrap', m_option_expect)
    A('Option', None, 'is_some', m_is_some)
    A('Option', None, 'is_none', m_is_some)
    A('Result', None, 'is_ok', m_is_some)
    A('Result', None, 'is_err', m_is_some)
    A('Option', None, 'map_or_else', m_option_map_or_else)
    A('Option', None, 'unwrap_or_else', m_option_unwrap_or_else)
    A('Option', None, 'ok_or_else', m_option_ok_or_else)
    A('Option', None, 'cloned', m_option_cloned)
    A('Option', None, 'copied', m_option_cloned)
    A('Result', None, 'copied', m_option_cloned)
    A('Result', 'Try', 'branch', m_try_branch)
    A('Option', 'Try', 'branch', m_try_branch)
    A('Result', 'FromResidual', 'from_residual', m_from_residual)
    A('Option', 'FromResidual', 'from_residual', m_from_residual)
    # panics and formatting
    A('rt', None, 'panic_fmt', m_panic)
    A('panicking', None, 'panic_fmt', m_panic)
    A('panicking', None, 'panic', m_panic)
    A('panicking', None, 'panic_explicit', m_panic)
    A('panicking', None, 'unreachable_display', m_panic)
    A('panicking', None, 'panic_display', m_panic)
    for m in ('new_debug', 'new_display', 'new_pointer', 'new_lower_hex'):
        A('Argument', None, m, m_fmt_argument)
    for m in ('new', 'from_str', 'from_str_nonconst', 'new_const', 'new_v1', 'new_v1_formatted'):
        A('Arguments', None, m, m_fmt_arguments)
    A('io', None, '_eprint', m_unit)
    A('Error', None, 'new', m_io_error_new)
    A('fmt', None, 'format', m_format)
    A(None, None, 'format', m_format)
    A(None, None, 'must_use', m_must_use)
    A('__private', None, 'must_use', m_must_use)
    A('__private', None, 'format_err', m_opaque('anyhow::Error'))
    # Vec / slices
    A('Vec', None, 'new', m_vec_new)
    A('Vec', None, 'with_capacity', m_vec_new)
    A('Vec', None, 'push', m_vec_push)
    A('Vec', None, 'len', m_len)
    A('Vec', None, 'is_empty', m_is_empty)
    A('Vec', 'Deref', 'deref', m_vec_deref)
    A('Vec', 'DerefMut', 'deref_mut', m_vec_deref_mut)
    A('Vec', 'Clone', 'clone', m_seq_clone)
    A('Vec', 'Index', 'index', m_index)
    A('Vec', 'IndexMut', 'index_mut', m_index_mut)
    A('slice', 'IndexMut', 'index_mut', m_index_mut)
    A('slice', 'Index', 'index', m_index)
    A('slice', None, 'is_empty', m_is_empty)
    A('slice', None, 'len', m_len)
    A('slice', None, 'to_vec', m_to_vec)
    A('slice', None, 'iter', m_slice_iter)
    A('slice', None, 'contains', m_slice_contains)
    A('slice', None, 'last', m_slice_last)
    A('slice', None, 'first', m_slice_first)
    A('slice', None, 'get', m_slice_get)
    A('Vec', 'IntoIterator', 'into_iter', m_into_iter)
    A(None, 'IntoIterator', 'into_iter', m_into_iter)
    for k in ('map', 'filter_map', 'enumerate', 'peekable', 'cloned', 'copied', 'chain'):
        A(None, 'Iterator', k, m_iter_adapt(k))
    A(None, 'Itertools', 'unique', m_iter_adapt('unique'))
    A(None, 'Iterator', 'next', m_iter_next)
    A('Peekable', None, 'peek', m_peekable_peek)
    A(None, 'Iterator', 'collect', m_collect)
    A(None, 'Iterator', 'any', m_iter_any)
    A(None, 'Iterator', 'fold', m_iter_fold)
    for tr in ('Fn', 'FnMut', 'FnOnce'):
        for m in ('call', 'call_mut', 'call_once'):
            A(None, tr, m, m_fn_call)
    # strings
    A('str', 'PartialEq', 'eq', m_str_eq)
    A('str', 'PartialEq', 'ne', m_str_eq)
    A('String', 'PartialEq', 'eq', m_str_eq)
    A('str', 'ToString', 'to_string', m_to_string)
    A(None, 'ToString', 'to_string', m_to_string)
    A('String', None, 'new', m_string_new)
    A('String', 'Clone', 'clone', m_identity_clone)
    A('String', 'Deref', 'deref', m_string_deref)
    A('String', None, 'as_str', m_string_deref)
    # hashing (write sequence)
    for t in ('isize', 'usize', 'bool', 'u64', 'i64', 'u32', 'u8', 'String', 'str'):
        A(t, 'Hash', 'hash', m_hash_write)
    A(None, 'Hash', 'hash', m_hash_write)
    A('ptr', None, 'hash', m_hash_write)
    A('intrinsics', None, 'discriminant_value', m_discriminant_value)
    A('mem', None, 'discriminant', m_discriminant_value)
    A(None, None, 'discriminant', m_discriminant_value)
    A(None, None, 'hash', m_hash_write)
    A('Discriminant', 'Hash', 'hash', m_hash_write)
    A('Discriminant', 'PartialEq', 'eq', m_partial_eq)


# ------------------------------------------------------------------------------------------------ more std models
# (used by changed trees; the unchanged crate does not need most of them)

def _bool_of_call(I, fr, f, args):
    """-> (Bool value, [panic outcomes]) of a pure predicate call"""
    val = None
    pans = []
    for o in call_mut_closure(I, fr, f, args):
        if o.kind == 'panic':
            pans.append(o)
        else:
            val = o.value if val is None else gite(o.guard, o.value, val)
    return val, pans


def _lt_values(I, fr, x, y, cmpf=None):
    """Bool: x < y (by Ord / by comparator closure returning Ordering)"""
    if cmpf is not None:
        o = None
        for out in call_mut_closure(I, fr, cmpf, [mk_sref(x), mk_sref(y)]):
            if out.kind == 'ret':
                o = out.value if o is None else merge(out.guard, out.value, o)
        return o.alts[0][0] if 0 in o.alts else False
    o, p = ordering_of(I, fr, x, y)
    return o.alts[0][0] if 0 in o.alts else False


def m_sort(I, fr, a, ck):
    """stable insertion sort over a concrete-length sequence with symbolic comparisons (elements become ite merges)"""
    s = _seq(I, fr, a[0])
    cmpf = a[1] if len(a) > 1 and ck.method in ('sort_by', 'sort_unstable_by') else None
    keyf = a[1] if len(a) > 1 and ck.method in ('sort_by_key', 'sort_unstable_by_key') else None
    items = list(s.items)
    if keyf is not None:
        raise EngineError('sort_by_key is not modelled')
    out = []
    for x in items:
        # insert x into sorted `out` (after all elements <= x)
        new = []
        placed = False      # Bool: x already placed before position j
        n = len(out)
        # position p = number of elements y in out with not (x < y)  (stable: equal keep order)
        le = [gnot(_lt_values(I, fr, x, y, cmpf)) for y in out]     # y <= x
        # since `out` is sorted, le is a prefix pattern; position = count of le
        for j in range(n + 1):
            # element at j of the new list: out[j] if j < p ; x if j == p ; out[j-1] if j > p
            before = gand(*le[:j + 1]) if j < n else False           # p > j  <=> le[0..j] all true
            at = gand(gand(*le[:j]) if j else True, gnot(le[j]) if j < n else True)   # p == j
            cand = None
            if j < n:
                cand = out[j]
            if j > 0:
                prev = out[j - 1]
            v = None
            if j < n and j > 0:
                v = merge(before, out[j], merge(at, x, out[j - 1]))
            elif j == 0 and n > 0:
                v = merge(before, out[0], x)
            elif j == 0:
                v = x
            else:
                v = merge(at, x, out[j - 1])
            new.append(v)
        out = new
    write_mref(I, fr, a[0], Seq(out))
    return UNIT


def _fork_filter(I, fr, items, keep_fn):
    """-> list of (guard, kept_items, panics) over all keep/drop patterns (concrete length bound)"""
    states = [(True, [])]
    pans = []
    for idx, x in enumerate(items):
        nxt = []
        for g, acc in states:
            keep, p = keep_fn(idx, x, acc)
            pans.extend(Outcome('panic', gand(g, o.guard), None, None, o.msg) for o in p)
            if not g_false(keep):
                nxt.append((gand(g, keep), acc + [x]))
            if not g_true(keep):
                nxt.append((gand(g, gnot(keep)), acc))
        states = nxt
        if len(states) > 256:
            raise EngineError('too many filter patterns')
    return states, pans


def m_dedup(I, fr, a, ck):
    s = _seq(I, fr, a[0])

    def keep(idx, x, acc):
        if not acc:
            return True, []
        e, p = _single_bool(I, fr, value_eq_call(I, fr, acc[-1], x))
        return gnot(e), p
    states, pans = _fork_filter(I, fr, s.items, keep)
    res = Outs(pans)
    base = fr.mem
    for g, acc in states:
        m = dict(base)
        r = a[0]
        m[r.cell] = set_mpath(I, base[r.cell], r.path, Seq(acc))
        res.append(Outcome('ret', g, UNIT, m))
    return res


def m_vec_retain(I, fr, a, ck):
    s = _seq(I, fr, a[0])
    f = a[1]

    def keep(idx, x, acc):
        return _bool_of_call(I, fr, f, [mk_sref(x)])
    states, pans = _fork_filter(I, fr, s.items, keep)
    res = Outs(pans)
    base = fr.mem
    for g, acc in states:
        m = dict(base)
        r = a[0]
        m[r.cell] = set_mpath(I, base[r.cell], r.path, Seq(acc))
        res.append(Outcome('ret', g, UNIT, m))
    return res


def m_iter_filter(I, fr, a, ck):
    return IterV('filter', [to_iter(I, fr, a[0]), a[1]])


def m_iter_rev(I, fr, a, ck):
    it = to_iter(I, fr, a[0])
    if it.kind in ('slice', 'vals'):
        s, pos = it.fields
        return IterV(it.kind, [Seq(tuple(reversed(s.items[pos:]))), 0])
    if it.kind == 'range':
        lo, hi = it.fields
        return IterV('vals', [Seq(tuple(range(hi - 1, lo - 1, -1))), 0])
    raise EngineError('rev on ' + it.kind)


def m_iter_skip(I, fr, a, ck):
    it = to_iter(I, fr, a[0])
    n = a[1]
    if it.kind in ('slice', 'vals') and isinstance(n, int):
        s, pos = it.fields
        return IterV(it.kind, [s, min(len(s.items), pos + n)])
    raise EngineError('skip on ' + it.kind)


def m_iter_take(I, fr, a, ck):
    it = to_iter(I, fr, a[0])
    n = a[1]
    if it.kind in ('slice', 'vals') and isinstance(n, int):
        s, pos = it.fields
        return IterV(it.kind, [Seq(s.items[:pos + n]), pos])
    raise EngineError('take on ' + it.kind)


def m_iter_zip(I, fr, a, ck):
    x = to_iter(I, fr, a[0])
    y = to_iter(I, fr, m_into_iter(I, fr, [a[1]], ck))
    return IterV('zip', [x, y])


def _drained_items(I, fr, it):
    """all (guard, items, mem) of draining an iterator; panics as Outcome in items position"""
    return drain(I, fr, it)


def m_iter_all(I, fr, a, ck):
    it = to_iter(I, fr, a[0] if isinstance(a[0], IterV) else I.peel_all(a[0], fr))
    f = a[1]
    res = Outs()
    for g, acc, mem in drain(I, fr, it):
        if isinstance(acc, Outcome):
            res.append(Outcome('panic', g, None, None, acc.msg))
            continue
        fr.mem = mem
        val = True
        for x in acc:
            v, p = _bool_of_call(I, fr, f, [x])
            for o in p:
                res.append(Outcome('panic', gand(g, val, o.guard), None, None, o.msg))
            val = gand(val, v)
        res.append(Outcome('ret', g, val, mem))
    return res


def m_iter_count(I, fr, a, ck):
    it = to_iter(I, fr, a[0])
    res = Outs()
    for g, acc, mem in drain(I, fr, it):
        if isinstance(acc, Outcome):
            res.append(Outcome('panic', g, None, None, acc.msg))
        else:
            res.append(Outcome('ret', g, len(acc), mem))
    return res


def m_iter_position(I, fr, a, ck):
    it = to_iter(I, fr, I.peel_all(a[0], fr) if isinstance(a[0], (SRef, MRef)) else a[0])
    f = a[1]
    res = Outs()
    for g, acc, mem in drain(I, fr, it):
        if isinstance(acc, Outcome):
            res.append(Outcome('panic', g, None, None, acc.msg))
            continue
        fr.mem = mem
        out = NONE
        for j in range(len(acc) - 1, -1, -1):
            v, p = _bool_of_call(I, fr, f, [acc[j]])
            out = merge(v, some(j), out)
        res.append(Outcome('ret', g, out, mem))
    return res


def m_iter_find(I, fr, a, ck):
    r = a[0]
    it = I.peel_all(r, fr) if isinstance(r, (SRef, MRef)) else r
    it = to_iter(I, fr, it)
    f = a[1]
    res = Outs()
    for g, acc, mem in drain(I, fr, it):
        if isinstance(acc, Outcome):
            res.append(Outcome('panic', g, None, None, acc.msg))
            continue
        fr.mem = mem
        out = NONE
        for j in range(len(acc) - 1, -1, -1):
            v, p = _bool_of_call(I, fr, f, [mk_sref(acc[j])])
            out = merge(v, some(acc[j]), out)
        res.append(Outcome('ret', g, out, mem))
    return res


def m_iter_minmax(I, fr, a, ck):
    """Iterator::min / max by Ord (min: first of the minima, max: last of the maxima)"""
    it = to_iter(I, fr, a[0])
    res = Outs()
    for g, acc, mem in drain(I, fr, it):
        if isinstance(acc, Outcome):
            res.append(Outcome('panic', g, None, None, acc.msg))
            continue
        if not acc:
            res.append(Outcome('ret', g, NONE, mem))
            continue
        best = acc[0]
        for x in acc[1:]:
            bx = I.peel_all(best, fr) if isinstance(best, (SRef, MRef)) else best
            xx = I.peel_all(x, fr) if isinstance(x, (SRef, MRef)) else x
            o, p = ordering_of(I, fr, xx, bx)
            lt = o.alts[0][0] if 0 in o.alts else False
            gt_or_eq = gnot(lt)
            best = merge(lt, x, best) if ck.method == 'min' else merge(gt_or_eq, x, best)
        res.append(Outcome('ret', g, some(best), mem))
    return res


def m_box_new_uninit(I, fr, a, ck):
    c = I.new_cell()
    m = dict(fr.mem)
    m[c] = UNINIT
    fr.mem = m
    return BoxV(SlotV(c))


def m_box_into_vec(I, fr, a, ck):
    b = a[0]
    if not (isinstance(b, BoxV) and isinstance(b.inner, SlotV)):
        raise EngineError('box_assume_init_into_vec_unsafe on %s' % type(b).__name__)
    v = fr.mem[b.inner.cell]
    m = dict(fr.mem)
    m.pop(b.inner.cell, None)
    fr.mem = m
    if not isinstance(v, Seq):
        raise EngineError('vec! box content is %s' % type(v).__name__)
    return v


def m_iter_take_while(I, fr, a, ck):
    return IterV('take_while', [to_iter(I, fr, a[0]), a[1], False])


def m_rc_as_ptr(I, fr, a, ck):
    rc = I.peel_all(a[0], fr) if isinstance(a[0], (SRef, MRef)) else a[0]
    if not isinstance(rc, RcV):
        raise EngineError('as_ptr on %s' % type(rc).__name__)
    return AddrV(rc.inner)


def m_rc_ptr_eq(I, fr, a, ck):
    x = I.peel_all(a[0], fr)
    y = I.peel_all(a[1], fr)
    if x is y:
        return True
    # pointer identity is not modelled: equal pointers imply equal contents, nothing more is known
    e, p = _single_bool(I, fr, value_eq_call(I, fr, x, y))

    def own(v):
        o = getattr(v, 'owned', False)
        if isinstance(o, Prov):
            return o.alts.get('T', False)
        return o is True
    # two table-owned nodes of equal structure are one allocation (the sharing invariant); otherwise unknown
    # (only where ownership is tracked at all: the provenance mode of the sharing units; elsewhere operands may be
    # diagrams of another environment, whose equal nodes are different allocations)
    both = gand(own(x), own(y)) if (I.prov is not None and isinstance(x, RcV) and isinstance(y, RcV)) else False
    return gand(e, gor(both, I.fresh_bool('ptr_eq')))


def m_option_map(I, fr, a, ck):
    v, f = a
    res = Outs()
    if 0 in v.alts and not g_false(v.alts[0][0]):
        res.append(ret(NONE, v.alts[0][0]))
    if 1 in v.alts and not g_false(v.alts[1][0]):
        for o in call_closure(I, fr, f, [v.alts[1][1][0]]):
            res.append(Outcome(o.kind, gand(v.alts[1][0], o.guard), some(o.value) if o.kind == 'ret' else None, o.mem, o.msg))
    return res


def m_option_unwrap_or(I, fr, a, ck):
    v, d = a
    res = d
    if 1 in v.alts:
        res = merge(v.alts[1][0], v.alts[1][1][0], d)
    return res


def m_option_map_or(I, fr, a, ck):
    v, d, f = a
    res = Outs()
    if 0 in v.alts and not g_false(v.alts[0][0]):
        res.append(ret(d, v.alts[0][0]))
    if 1 in v.alts and not g_false(v.alts[1][0]):
        for o in call_closure(I, fr, f, [v.alts[1][1][0]]):
            res.append(Outcome(o.kind, gand(v.alts[1][0], o.guard), o.value, o.mem, o.msg))
    return res


def m_vec_pop(I, fr, a, ck):
    s = _seq(I, fr, a[0])
    if not s.items:
        return NONE
    write_mref(I, fr, a[0], Seq(s.items[:-1]))
    return some(s.items[-1])


def m_vec_insert(I, fr, a, ck):
    s = _seq(I, fr, a[0])
    i = a[1]
    if not isinstance(i, int):
        raise EngineError('Vec::insert at symbolic index')
    if i > len(s.items):
        return Outs([panic(True, 'insertion index out of bounds')])
    write_mref(I, fr, a[0], Seq(s.items[:i] + (a[2],) + s.items[i:]))
    return UNIT


def m_vec_remove(I, fr, a, ck):
    s = _seq(I, fr, a[0])
    i = a[1]
    if not isinstance(i, int):
        raise EngineError('Vec::remove at symbolic index')
    if i >= len(s.items):
        return Outs([panic(True, 'removal index out of bounds')])
    write_mref(I, fr, a[0], Seq(s.items[:i] + s.items[i + 1:]))
    return s.items[i]


def m_vec_extend(I, fr, a, ck):
    s = _seq(I, fr, a[0])
    it = to_iter(I, fr, m_into_iter(I, fr, [a[1]], ck))
    res = Outs()
    base = fr.mem
    r = a[0]
    for g, acc, mem in drain(I, fr, it):
        if isinstance(acc, Outcome):
            res.append(Outcome('panic', g, None, None, acc.msg))
            continue
        m = dict(mem)
        m[r.cell] = set_mpath(I, mem[r.cell], r.path, Seq(s.items + tuple(acc)))
        res.append(Outcome('ret', g, UNIT, m))
    return res


def m_vec_clear(I, fr, a, ck):
    write_mref(I, fr, a[0], Seq(()))
    return UNIT


def m_map_contains_key(I, fr, a, ck):
    t = I.peel_all(a[0], fr)
    key = I.peel_all(a[1], fr)
    if isinstance(t, MapV):
        r = map_get(I, fr, t, key)
        if isinstance(r, Outs):
            raise EngineError('panic in key comparison')
        return r.alts[1][0] if 1 in r.alts else False
    if isinstance(t, TableV) and isinstance(key, Adt) and key.ty == 'BDD':
        leaf = gor(*[gand(g, t.leaves[idx]) for idx, (g, fs) in key.alts.items() if idx in (0, 1)])
        inner = gor(*[g for idx, (g, fs) in key.alts.items() if idx not in (0, 1)])
        return gor(leaf, gand(inner, I.fresh_bool('hit')))
    raise EngineError('contains_key on %s' % type(t).__name__)


def m_map_clear(I, fr, a, ck):
    t = I.peel_all(a[0], fr)
    if isinstance(t, MapV):
        write_mref(I, fr, a[0], MapV(()))
        return UNIT
    if isinstance(t, TableV):
        write_mref(I, fr, a[0], TableV(t.tag, (False, False)))
        return UNIT
    raise EngineError('clear on %s' % type(t).__name__)


def m_map_remove(I, fr, a, ck):
    t = I.peel_all(a[0], fr)
    key = I.peel_all(a[1], fr)
    if isinstance(t, MapV):
        old = map_get(I, fr, t, key)
        if isinstance(old, Outs):
            raise EngineError('panic in key comparison')
        items = []
        for g, k, v in t.items:
            e, p = _single_bool(I, fr, value_eq_call(I, fr, k, key))
            items.append((gand(g, gnot(e)), k, v))
        write_mref(I, fr, a[0], MapV(items))
        alts = {}
        for idx, (g, fs) in old.alts.items():
            alts[idx] = (g, tuple(f.val if isinstance(f, SRef) else f for f in fs))
        return Adt('Option', alts)
    raise Unsupported('removal from the unique table (the table model has no removal)')


def register_more(M):
    A = M.add
    for m in ('sort', 'sort_unstable', 'sort_by', 'sort_unstable_by'):
        A('slice', None, m, m_sort)
        A('Vec', None, m, m_sort)
    A('Vec', None, 'dedup', m_dedup)
    A('Vec', None, 'retain', m_vec_retain)
    A('Vec', None, 'pop', m_vec_pop)
    A('Vec', None, 'insert', m_vec_insert)
    A('Vec', None, 'remove', m_vec_remove)
    A('Vec', None, 'clear', m_vec_clear)
    A('Vec', 'Extend', 'extend', m_vec_extend)
    A('Vec', None, 'contains', m_slice_contains)
    A(None, 'Iterator', 'filter', m_iter_filter)
    A(None, 'Iterator', 'rev', m_iter_rev)
    A(None, 'Iterator', 'skip', m_iter_skip)
    A(None, 'Iterator', 'take', m_iter_take)
    A(None, 'Iterator', 'zip', m_iter_zip)
    A(None, 'Iterator', 'all', m_iter_all)
    A(None, 'Iterator', 'count', m_iter_count)
    A(None, 'Iterator', 'min', m_iter_minmax)
    A(None, 'Iterator', 'max', m_iter_minmax)
    A(None, 'Iterator', 'position', m_iter_position)
    A(None, 'Iterator', 'find', m_iter_find)
    A('Rc', None, 'ptr_eq', m_rc_ptr_eq)
    A('Rc', None, 'as_ptr', m_rc_as_ptr)
    A('Box', None, 'new_uninit', m_box_new_uninit)
    A('boxed', None, 'box_assume_init_into_vec_unsafe', m_box_into_vec)
    A(None, 'Iterator', 'take_while', m_iter_take_while)
    A('Rc', None, 'into_raw', m_rc_as_ptr)
    A('Option', None, 'map', m_option_map)
    A('Option', None, 'unwrap_or', m_option_unwrap_or)
    A('Option', None, 'map_or', m_option_map_or)
    A('HashMap', None, 'contains_key', m_map_contains_key)
    A('HashMap', None, 'clear', m_map_clear)
    A('HashMap', None, 'remove', m_map_remove)
    A('HashMap', None, 'new', m_map_default)
    A('HashSet', 'Default', 'default', m_map_default)


# ------------------------------------------------------------------------------------------------ integer helpers

_INT_RE = re.compile(r'\b(usize|isize|u8|u16|u32|u64|u128|i8|i16|i32|i64|i128)\b')


def _int_ty(name):
    from .mirparse import int_type
    return int_type(name)


def _range(bits, signed):
    return (-(1 << (bits - 1)), (1 << (bits - 1)) - 1) if signed else (0, (1 << bits) - 1)


def m_try_from(I, fr, a, ck):
    """<T as TryFrom<U>>::try_from for integer types: Ok(x as T) when x is in T's range else Err"""
    dst = _int_ty(ck.selfraw.strip()) if ck.selfraw else None
    m = re.search(r'TryFrom<\s*(\w+)\s*>', ck.raw)
    src = _int_ty(m.group(1)) if m else None
    if dst is None or src is None:
        raise Unsupported('try_from ' + ck.raw)
    x = a[0]
    (db, ds), (sb, ss) = dst, src
    lo, hi = _range(db, ds)
    if isinstance(x, int):
        return mk('Result', 0, [x]) if lo <= x <= hi else mk('Result', 1, [Opaque('TryFromIntError')])
    X = I.to_bv(x, sb)
    W = max(sb, db) + 1
    ext = z3.SignExt(W - sb, X) if ss else z3.ZeroExt(W - sb, X)
    inr = z3.And(ext >= z3.BitVecVal(lo, W), ext <= z3.BitVecVal(hi, W))
    if db == sb:
        conv = X
    elif db < sb:
        conv = z3.Extract(db - 1, 0, X)
    else:
        conv = z3.SignExt(db - sb, X) if ss else z3.ZeroExt(db - sb, X)
    return Adt('Result', {0: (inr, (conv,)), 1: (z3.Not(inr), (Opaque('TryFromIntError'),))})


def m_result_unwrap_or(I, fr, a, ck):
    v, d = a
    good = 1 if v.ty == 'Option' else 0
    res = d
    if good in v.alts:
        res = merge(v.alts[good][0], v.alts[good][1][0], d)
    return res


def _impl_int(ck):
    m = re.search(r'<impl (\w+)>', ck.raw)
    t = _int_ty(m.group(1)) if m else None
    if t is None:
        raise Unsupported('integer method ' + ck.raw)
    return t


def m_int_method(I, fr, a, ck):
    bits, signed = _impl_int(ck)
    name = ck.method
    lo, hi = _range(bits, signed)
    x = a[0]
    y = a[1] if len(a) > 1 else None
    conc = isinstance(x, int) and (y is None or isinstance(y, int))
    if name in ('saturating_add', 'saturating_sub', 'checked_add', 'checked_sub', 'wrapping_add', 'wrapping_sub', 'overflowing_add', 'overflowing_sub'):
        add = name.endswith('add')
        if conc:
            e = x + y if add else x - y
            ok = lo <= e <= hi
            if name.startswith('saturating'):
                return e if ok else (hi if e > hi else lo)
            if name.startswith('checked'):
                return some(e) if ok else NONE
            w = I.wrap(e, bits, signed)
            return w if name.startswith('wrapping') else mk_tuple([w, not ok])
        X, Y = I.to_bv(x, bits), I.to_bv(y, bits)
        W = bits + 1
        ex = (z3.SignExt(1, X) if signed else z3.ZeroExt(1, X))
        ey = (z3.SignExt(1, Y) if signed else z3.ZeroExt(1, Y))
        e = ex + ey if add else ex - ey
        if signed:
            over, under = e > z3.BitVecVal(hi, W), e < z3.BitVecVal(lo, W)
        else:
            # unsigned: W-bit arithmetic; sub underflow shows as borrow
            over = z3.UGT(e, z3.BitVecVal(hi, W)) if add else z3.BoolVal(False)
            under = z3.ULT(X, Y) if not add else z3.BoolVal(False)
        r = X + Y if add else X - Y
        if name.startswith('saturating'):
            return z3.If(over, z3.BitVecVal(hi, bits), z3.If(under, z3.BitVecVal(lo, bits), r))
        if name.startswith('checked'):
            ok = z3.Not(z3.Or(over, under))
            return Adt('Option', {1: (ok, (r,)), 0: (z3.Not(ok), ())})
        if name.startswith('wrapping'):
            return r
        return mk_tuple([r, z3.Or(over, under)])
    if name in ('min', 'max'):
        if conc:
            return min(x, y) if name == 'min' else max(x, y)
        X, Y = I.to_bv(x, bits), I.to_bv(y, bits)
        lt = (X < Y) if signed else z3.ULT(X, Y)
        return z3.If(lt, X, Y) if name == 'min' else z3.If(lt, Y, X)
    if name == 'abs' and signed:
        if conc:
            return abs(x)
        X = I.to_bv(x, bits)
        return z3.If(X < 0, -X, X)
    raise Unsupported('integer method ' + ck.raw)


def m_cmp_max_min(I, fr, a, ck):
    x, y = a
    if isinstance(x, int) and isinstance(y, int):
        return max(x, y) if ck.method == 'max' else min(x, y)
    X, Y = I.to_bv(x, 64), I.to_bv(y, 64)
    lt = z3.ULT(X, Y)
    return z3.If(lt, Y, X) if ck.method == 'max' else z3.If(lt, X, Y)


def m_refcell_default(I, fr, a, ck):
    """RefCell<T>::default(): RefCell::new(T::default()); T is a map / Vec / String / Rc<BDD> by the printed type"""
    raw = ck.selfraw or ''
    if 'HashMap' in raw or 'HashSet' in raw:
        inner = MapV(())
    elif 'Vec<' in raw:
        inner = Seq(())
    elif 'String' in raw:
        inner = Str('')
    else:
        raise Unsupported('RefCell::default for ' + raw)
    return m_refcell_new(I, fr, [inner], ck)


def m_set_insert(I, fr, a, ck):
    t = I.peel_all(a[0], fr)
    if not isinstance(t, MapV):
        raise EngineError('HashSet::insert on %s' % type(t).__name__)
    old = map_get(I, fr, t, a[1])
    if isinstance(old, Outs):
        raise EngineError('panic in key comparison')
    present = old.alts[1][0] if 1 in old.alts else False
    write_mref(I, fr, a[0], MapV(t.items + ((True, a[1], UNIT),)))
    return gnot(present)


def m_set_contains(I, fr, a, ck):
    t = I.peel_all(a[0], fr)
    key = I.peel_all(a[1], fr)
    if not isinstance(t, MapV):
        raise EngineError('HashSet::contains on %s' % type(t).__name__)
    r = map_get(I, fr, t, key)
    if isinstance(r, Outs):
        raise EngineError('panic in key comparison')
    return r.alts[1][0] if 1 in r.alts else False


def m_refcell_eq(I, fr, a, ck):
    """<RefCell<T> as PartialEq>::eq: *self.borrow() == *other.borrow()"""
    x = _refcell_of(I, fr, a[0])
    y = _refcell_of(I, fr, a[1])
    sx, sy = fr.mem[x.cell], fr.mem[y.cell]
    if sx.borrow < 0 or sy.borrow < 0:
        return Outs([panic(True, 'RefCell already mutably borrowed')])
    return value_eq_call(I, fr, sx.content, sy.content, ck.method == 'ne')


def m_int_op_trait(I, fr, a, ck):
    """<T as Shr/Shl/Add/Sub/Mul/BitAnd/BitOr/BitXor<U>>::op on integers (operands possibly behind references)"""
    x = I.peel_all(a[0], fr)
    y = I.peel_all(a[1], fr) if len(a) > 1 else None
    t = _int_ty((ck.selfraw or '').replace('&', '').strip()) or (64, False)
    bits, signed = t
    tr = ck.trait
    if isinstance(x, OrdId):
        x = x.bv()
    if isinstance(y, OrdId):
        y = y.bv()
    conc = isinstance(x, int) and (y is None or isinstance(y, int))
    if tr in ('Shr', 'Shl'):
        if isinstance(y, int):
            if y >= bits or y < 0:
                return Outs([panic(True, 'attempt to shift with overflow')]) if I.cfg['overflow_checks'] else I.wrap(0, bits, signed)
            if conc:
                return I.wrap((x >> y) if tr == 'Shr' else (x << y), bits, signed)
            X = I.to_bv(x, bits)
            Y = z3.BitVecVal(y, bits)
            return (X >> Y if signed else z3.LShR(X, Y)) if tr == 'Shr' else X << Y
        X = I.to_bv(x, bits)
        Y = I.to_bv(y, bits)
        ovf = z3.UGE(Y, z3.BitVecVal(bits, bits))
        r = (X >> (Y & (bits - 1)) if signed else z3.LShR(X, Y & (bits - 1))) if tr == 'Shr' else X << (Y & (bits - 1))
        if I.cfg['overflow_checks']:
            return Outs([panic(ovf, 'attempt to shift with overflow'), ret(r, gnot(ovf))])
        return r
    if tr in ('BitAnd', 'BitOr', 'BitXor'):
        if isinstance(x, (bool, z3.BoolRef)):
            return {'BitAnd': gand(x, y), 'BitOr': gor(x, y), 'BitXor': gnot(beq_(x, y))}[tr]
        if conc:
            return {'BitAnd': x & y, 'BitOr': x | y, 'BitXor': x ^ y}[tr]
        X, Y = I.to_bv(x, bits), I.to_bv(y, bits)
        return {'BitAnd': X & Y, 'BitOr': X | Y, 'BitXor': X ^ Y}[tr]
    if tr in ('Add', 'Sub', 'Mul'):
        if conc:
            e = {'Add': x + y, 'Sub': x - y, 'Mul': x * y}[tr]
            w = I.wrap(e, bits, signed)
            if w != e and I.cfg['overflow_checks']:
                return Outs([panic(True, 'attempt to %s with overflow' % tr.lower())])
            return w
        X, Y = I.to_bv(x, bits), I.to_bv(y, bits)
        if tr == 'Add':
            r = X + Y
            ok = z3.And(z3.BVAddNoOverflow(X, Y, signed), z3.BVAddNoUnderflow(X, Y)) if signed else z3.BVAddNoOverflow(X, Y, False)
        elif tr == 'Sub':
            r = X - Y
            ok = z3.And(z3.BVSubNoOverflow(X, Y), z3.BVSubNoUnderflow(X, Y, True)) if signed else z3.UGE(X, Y)
        else:
            r = X * Y
            ok = z3.And(z3.BVMulNoOverflow(X, Y, signed), z3.BVMulNoUnderflow(X, Y)) if signed else z3.BVMulNoOverflow(X, Y, False)
        if I.cfg['overflow_checks']:
            return Outs([panic(z3.Not(ok), 'attempt to %s with overflow' % tr.lower()), ret(r, ok)])
        return r
    if tr == 'Not':
        if isinstance(x, (bool, z3.BoolRef)):
            return gnot(x)
        return I.wrap(~x, bits, signed) if isinstance(x, int) else ~I.to_bv(x, bits)
    raise Unsupported('operator trait ' + ck.raw)


def beq_(a, b):
    if isinstance(a, bool) and isinstance(b, bool):
        return a == b
    return to_bool(a) == to_bool(b)


def m_option_and_then(I, fr, a, ck):
    v, f = a
    res = Outs()
    if 0 in v.alts and not g_false(v.alts[0][0]):
        res.append(ret(NONE, v.alts[0][0]))
    if 1 in v.alts and not g_false(v.alts[1][0]):
        for o in call_closure(I, fr, f, [v.alts[1][1][0]]):
            res.append(Outcome(o.kind, gand(v.alts[1][0], o.guard), o.value, o.mem, o.msg))
    return res


def m_option_or_else(I, fr, a, ck):
    """Option::or_else(f): Some(x) stays, None becomes f()"""
    v, f = a
    res = Outs()
    if 0 in v.alts and not g_false(v.alts[0][0]):
        for o in call_closure(I, fr, f, []):
            res.append(Outcome(o.kind, gand(v.alts[0][0], o.guard), o.value, o.mem, o.msg))
    if 1 in v.alts and not g_false(v.alts[1][0]):
        res.append(ret(mk('Option', 1, [v.alts[1][1][0]]), v.alts[1][0]))
    return res


def m_result_map_err(I, fr, a, ck):
    v, f = a
    res = Outs()
    if 0 in v.alts and not g_false(v.alts[0][0]):
        res.append(ret(mk('Result', 0, [v.alts[0][1][0]]), v.alts[0][0]))
    if 1 in v.alts and not g_false(v.alts[1][0]):
        for o in call_closure(I, fr, f, [v.alts[1][1][0]]):
            res.append(Outcome(o.kind, gand(v.alts[1][0], o.guard), mk('Result', 1, [o.value]) if o.kind == 'ret' else None, o.mem, o.msg))
    return res


def m_result_map(I, fr, a, ck):
    v, f = a
    res = Outs()
    if 1 in v.alts and not g_false(v.alts[1][0]):
        res.append(ret(mk('Result', 1, [v.alts[1][1][0]]), v.alts[1][0]))
    if 0 in v.alts and not g_false(v.alts[0][0]):
        for o in call_closure(I, fr, f, [v.alts[0][1][0]]):
            res.append(Outcome(o.kind, gand(v.alts[0][0], o.guard), mk('Result', 0, [o.value]) if o.kind == 'ret' else None, o.mem, o.msg))
    return res


def m_result_ok(I, fr, a, ck):
    v = a[0]
    alts = {}
    if 0 in v.alts:
        alts[1] = (v.alts[0][0], (v.alts[0][1][0],))
    if 1 in v.alts:
        alts[0] = (v.alts[1][0], ())
    return Adt('Option', alts)


def m_ord_max_min(I, fr, a, ck):
    """<T as Ord>::max / min / clamp for integer T"""
    t = _int_ty((ck.selfraw or '').strip())
    if t is None:
        raise Unsupported('Ord::%s for %s' % (ck.method, ck.selfraw))
    bits, signed = t
    if all(isinstance(x, int) for x in a):
        return {'max': max, 'min': min}[ck.method](a[0], a[1]) if ck.method in ('max', 'min') else max(a[1], min(a[2], a[0]))
    X, Y = I.to_bv(a[0], bits), I.to_bv(a[1], bits)
    lt = (X < Y) if signed else z3.ULT(X, Y)
    if ck.method == 'max':
        return z3.If(lt, Y, X)
    if ck.method == 'min':
        return z3.If(lt, X, Y)
    Z = I.to_bv(a[2], bits)
    gt = (X > Z) if signed else z3.UGT(X, Z)
    return z3.If(lt, Y, z3.If(gt, Z, X))


def m_string_add(I, fr, a, ck):
    x = I.peel_all(a[0], fr) if isinstance(a[0], (SRef, MRef)) else a[0]
    y = I.peel_all(a[1], fr)
    if isinstance(x, Str) and isinstance(y, Str):
        if isinstance(x.s, str) and isinstance(y.s, str):
            return Str(x.s + y.s)
        xs = z3.StringVal(x.s) if isinstance(x.s, str) else x.s
        ys = z3.StringVal(y.s) if isinstance(y.s, str) else y.s
        return Str(z3.Concat(xs, ys))
    raise EngineError('String + on %s' % type(x).__name__)


def m_slice_join(I, fr, a, ck):
    s = _seq(I, fr, a[0])
    sep = I.peel_all(a[1], fr)
    parts = []
    for x in s.items:
        if not isinstance(x, Str) or not isinstance(x.s, str):
            if I.cfg.get('format_symbolic') == 'prop' and all(isinstance(y, Str) for y in s.items) and isinstance(sep.s, str):
                ps = []
                for i, y in enumerate(s.items):
                    if i:
                        ps.append(sep.s)
                    ps.append(TextAlts.of(y.s))
                return Str(text_concat(ps))
            raise EngineError('join over non-concrete strings')
        parts.append(x.s)
    return Str(sep.s.join(parts))


def register_ints(M):
    A = M.add
    A('String', 'Add', 'add', m_string_add)
    A('slice', None, 'join', m_slice_join)
    A(None, 'Itertools', 'join', m_itertools_join)
    A('Option', None, 'unwrap_or_default', m_option_unwrap_or_default)
    A('mem', None, 'drop', m_mem_drop)
    A('Option', None, 'flatten', m_option_flatten)
    A('Vec', None, 'split_off', m_vec_split_off)
    A('slice', None, 'concat', m_slice_join)
    for t in ('usize', 'u64', 'i64', 'isize', 'u32', 'i32', 'u8', 'u16'):
        for m in ('max', 'min', 'clamp'):
            A(t, 'Ord', m, m_ord_max_min)
    A('Result', None, 'map_err', m_result_map_err)
    A('Option', None, 'and_then', m_option_and_then)
    A('Option', None, 'or_else', m_option_or_else)
    A('Result', None, 'map', m_result_map)
    A('Result', None, 'ok', m_result_ok)
    for tr, m in (('Shr', 'shr'), ('Shl', 'shl'), ('Add', 'add'), ('Sub', 'sub'), ('Mul', 'mul'), ('BitAnd', 'bitand'), ('BitOr', 'bitor'), ('BitXor', 'bitxor'), ('Not', 'not')):
        for t in ('usize', 'u64', 'i64', 'isize', 'u32', 'i32', 'u8', 'u16', 'bool'):
            A(t, tr, m, m_int_op_trait)
    A('RefCell', 'PartialEq', 'eq', m_refcell_eq)
    A('RefCell', 'PartialEq', 'ne', m_refcell_eq)
    A('HashSet', None, 'insert', m_set_insert)
    A('HashSet', None, 'contains', m_set_contains)
    A('HashSet', None, 'new', m_map_default)
    A('HashSet', None, 'clear', m_map_clear)
    A('RefCell', 'Default', 'default', m_refcell_default)
    A('Vec', 'Default', 'default', m_vec_new)
    A('String', 'Default', 'default', m_string_new)
    A(None, 'TryFrom', 'try_from', m_try_from)
    A(None, 'TryInto', 'try_into', m_try_from)
    A('Result', None, 'unwrap_or', m_result_unwrap_or)
    A('Result', None, 'unwrap_or_else', m_result_unwrap_or_else)
    A('Result', None, 'unwrap_or_default', m_result_unwrap_or)
    for m in ('saturating_add', 'saturating_sub', 'checked_add', 'checked_sub', 'wrapping_add', 'wrapping_sub', 'overflowing_add',
              'overflowing_sub', 'min', 'max', 'abs'):
        A('num', None, m, m_int_method)
    A('cmp', None, 'max', m_cmp_max_min)
    A('cmp', None, 'min', m_cmp_max_min)


# ------------------------------------------------------------------------------------------------ further std models (batch 3)

def m_mem_swap(I, fr, a, ck):
    x = deref1(I, fr, a[0])
    y = deref1(I, fr, a[1])
    write_mref(I, fr, a[0], y)
    write_mref(I, fr, a[1], x)
    return UNIT


def m_mem_replace(I, fr, a, ck):
    old = deref1(I, fr, a[0])
    write_mref(I, fr, a[0], a[1])
    return old


def m_mem_take(I, fr, a, ck):
    old = deref1(I, fr, a[0])
    if isinstance(old, Seq):
        new = Seq(())
    elif isinstance(old, Str):
        new = Str('')
    elif isinstance(old, Adt) and old.ty == 'Option':
        new = NONE
    elif isinstance(old, MapV):
        new = MapV(())
    else:
        raise Unsupported('mem::take of %s' % type(old).__name__)
    write_mref(I, fr, a[0], new)
    return old


def m_option_take(I, fr, a, ck):
    old = deref1(I, fr, a[0])
    write_mref(I, fr, a[0], NONE)
    return old


def m_option_or(I, fr, a, ck):
    v, d = a
    if 1 in v.alts:
        return merge(v.alts[1][0], v, d)
    return d


def m_option_is_some_and(I, fr, a, ck):
    v, f = a
    res = Outs()
    if 0 in v.alts and not g_false(v.alts[0][0]):
        res.append(ret(False, v.alts[0][0]))
    if 1 in v.alts and not g_false(v.alts[1][0]):
        for o in call_closure(I, fr, f, [v.alts[1][1][0]]):
            res.append(Outcome(o.kind, gand(v.alts[1][0], o.guard), o.value, o.mem, o.msg))
    return res


def m_option_filter(I, fr, a, ck):
    v, f = a
    res = Outs()
    if 0 in v.alts and not g_false(v.alts[0][0]):
        res.append(ret(NONE, v.alts[0][0]))
    if 1 in v.alts and not g_false(v.alts[1][0]):
        x = v.alts[1][1][0]
        b, p = _bool_of_call(I, fr, f, [mk_sref(x)])
        for o in p:
            res.append(Outcome('panic', gand(v.alts[1][0], o.guard), None, None, o.msg))
        res.append(ret(option(I, b, x), v.alts[1][0]))
    return res


def m_bool_then(I, fr, a, ck):
    b, f = a
    res = Outs()
    if not g_true(b):
        res.append(ret(NONE, gnot(b)))
    if not g_false(b):
        if ck.method == 'then_some':
            res.append(ret(some(f), b))
        else:
            for o in call_closure(I, fr, f, []):
                res.append(Outcome(o.kind, gand(b, o.guard), some(o.value) if o.kind == 'ret' else None, o.mem, o.msg))
    return res


def m_ordering_pred(I, fr, a, ck):
    o = I.peel_all(a[0], fr) if isinstance(a[0], (SRef, MRef)) else a[0]
    g = lambda i: o.alts[i][0] if i in o.alts else False
    return {'is_lt': g(0), 'is_eq': g(1), 'is_gt': g(2), 'is_le': gor(g(0), g(1)), 'is_ge': gor(g(1), g(2)), 'is_ne': gor(g(0), g(2))}[ck.method]


def m_ordering_reverse(I, fr, a, ck):
    o = a[0]
    alts = {}
    for i, (g, fs) in o.alts.items():
        alts[2 - i] = (g, fs)
    return Adt('Ordering', alts)


def m_iter_sum(I, fr, a, ck):
    it = to_iter(I, fr, a[0])
    res = Outs()
    for g, acc, mem in drain(I, fr, it):
        if isinstance(acc, Outcome):
            res.append(Outcome('panic', g, None, None, acc.msg))
            continue
        tot = 0
        for x in acc:
            x = I.peel_all(x, fr) if isinstance(x, (SRef, MRef)) else x
            if isinstance(tot, int) and isinstance(x, int):
                tot += x
            else:
                tot = I.to_bv(tot, 64) + I.to_bv(x, 64)
        res.append(Outcome('ret', g, tot, mem))
    return res


def m_iter_last(I, fr, a, ck):
    it = to_iter(I, fr, a[0])
    res = Outs()
    for g, acc, mem in drain(I, fr, it):
        if isinstance(acc, Outcome):
            res.append(Outcome('panic', g, None, None, acc.msg))
        else:
            res.append(Outcome('ret', g, some(acc[-1]) if acc else NONE, mem))
    return res


def m_iter_nth(I, fr, a, ck):
    r = a[0]
    it = I.peel_all(r, fr)
    n = a[1]
    if not isinstance(n, int) or it.kind not in ('slice', 'vals'):
        raise EngineError('nth on %s' % it.kind)
    s, pos = it.fields
    if pos + n >= len(s.items):
        write_mref(I, fr, r, IterV(it.kind, [s, len(s.items)]))
        return NONE
    write_mref(I, fr, r, IterV(it.kind, [s, pos + n + 1]))
    x = s.items[pos + n]
    return some(mk_sref(x) if it.kind == 'slice' else x)


def m_iter_for_each(I, fr, a, ck):
    it = to_iter(I, fr, a[0])
    f = a[1]
    res = Outs()
    for g, acc, mem in drain(I, fr, it):
        if isinstance(acc, Outcome):
            res.append(Outcome('panic', g, None, None, acc.msg))
            continue
        states = [(g, mem)]
        for x in acc:
            nxt = []
            for sg, sm in states:
                fr.mem = sm
                for o in call_mut_closure(I, fr, f, [x]):
                    if o.kind == 'panic':
                        res.append(Outcome('panic', gand(sg, o.guard), None, None, o.msg))
                    else:
                        nxt.append((gand(sg, o.guard), o.mem))
            states = nxt
        for sg, sm in states:
            res.append(Outcome('ret', sg, UNIT, sm))
    return res


def m_vec_truncate(I, fr, a, ck):
    s = _seq(I, fr, a[0])
    n = a[1]
    if not isinstance(n, int):
        H = I.to_bv(n, 64)
        outs = Outs()
        base = fr.mem
        r = a[0]
        for h in range(0, len(s.items) + 1):
            m = dict(base)
            m[r.cell] = set_mpath(I, base[r.cell], r.path, Seq(s.items[:h]))
            cond = (H == z3.BitVecVal(h, 64)) if h < len(s.items) else z3.UGE(H, z3.BitVecVal(h, 64))
            outs.append(Outcome('ret', cond, UNIT, m))
        return outs
    write_mref(I, fr, a[0], Seq(s.items[:n]))
    return UNIT


def m_vec_reverse(I, fr, a, ck):
    s = _seq(I, fr, a[0])
    write_mref(I, fr, a[0], Seq(tuple(reversed(s.items))))
    return UNIT


def m_vec_swap(I, fr, a, ck):
    s = _seq(I, fr, a[0])
    i, j = a[1], a[2]
    if not (isinstance(i, int) and isinstance(j, int)):
        raise EngineError('swap at symbolic indices')
    if i >= len(s.items) or j >= len(s.items):
        return Outs([panic(True, 'index out of bounds in swap')])
    items = list(s.items)
    items[i], items[j] = items[j], items[i]
    write_mref(I, fr, a[0], Seq(items))
    return UNIT


def m_vec_iter_mut(I, fr, a, ck):
    """slice::iter_mut over a concrete-length sequence: yields &mut to each element in turn"""
    r = a[0]
    if not isinstance(r, MRef):
        raise Unsupported('iter_mut on a sequence that is not reached through &mut')
    s = _seq(I, fr, r)
    return IterV('vals', [Seq([MRef(r.cell, tuple(r.path) + (('index', i),)) for i in range(len(s.items))]), 0])


def m_string_push_str(I, fr, a, ck):
    s = deref1(I, fr, a[0])
    t = I.peel_all(a[1], fr)
    if isinstance(s.s, str) and isinstance(t.s, str):
        write_mref(I, fr, a[0], Str(s.s + t.s))
        return UNIT
    raise EngineError('push_str on symbolic strings')


def m_str_len(I, fr, a, ck):
    s = I.peel_all(a[0], fr)
    if isinstance(s, Str) and isinstance(s.s, str):
        return len(s.s.encode())
    if isinstance(s, Str):
        return z3.Int2BV(z3.Length(s.s), 64)
    raise EngineError('len of %s' % type(s).__name__)


def m_str_is_empty(I, fr, a, ck):
    s = I.peel_all(a[0], fr)
    if isinstance(s.s, str):
        return len(s.s) == 0
    return z3.Length(s.s) == 0


def m_str_pred(I, fr, a, ck):
    s = I.peel_all(a[0], fr)
    t = I.peel_all(a[1], fr)
    if not (isinstance(s, Str) and isinstance(t, Str)):
        raise EngineError('str predicate on %s' % type(t).__name__)
    if isinstance(s.s, str) and isinstance(t.s, str):
        return {'starts_with': s.s.startswith(t.s), 'ends_with': s.s.endswith(t.s), 'contains': t.s in s.s}[ck.method]
    ss = z3.StringVal(s.s) if isinstance(s.s, str) else s.s
    ts = z3.StringVal(t.s) if isinstance(t.s, str) else t.s
    return {'starts_with': z3.PrefixOf(ts, ss), 'ends_with': z3.SuffixOf(ts, ss), 'contains': z3.Contains(ss, ts)}[ck.method]


def m_rc_count(I, fr, a, ck):
    raise Unsupported('reference counts are not modelled (value semantics for Rc)')


def m_entry_or_insert(I, fr, a, ck):
    raise Unsupported('HashMap entry API is not modelled')


def m_rc_default(I, fr, a, ck):
    """<Rc<T> as Default>::default = Rc::new(T::default()) with the crate's own Default impl of T"""
    import re as _re
    m = _re.match(r'^<(?:std::rc::|alloc::rc::)?Rc<(.*)> as (?:std::default::|core::default::)?Default>::default', ck.raw or '')
    if not m:
        raise Unsupported('Rc::default of ' + str(ck.raw))
    inner = strip_generics(m.group(1)).split('::')[-1].strip()
    it = I.by_key.get((inner, 'Default', 'default'))
    if it is None:
        raise Unsupported('Default for ' + inner)
    outs = []
    for o in I.call_item(it, [], fr.mem):
        if o.kind == 'ret':
            outs.append(Outcome('ret', o.guard, m_rc_new(I, fr, [o.value], ck), o.mem))
        else:
            outs.append(o)
    return Outs(outs)


def m_binary_search(I, fr, a, ck):
    """core's slice::binary_search_by, step for step (the list need not be sorted: the answer is whatever the
    algorithm computes): size halves, base moves to mid unless elem[mid] > target."""
    s = _seq(I, fr, a[0])
    target = I.peel_all(a[1], fr)
    n = len(s.items)
    if n == 0:
        return mk('Result', 1, [0])
    cmp_at = {}

    def cmp(i):
        if i not in cmp_at:
            o, pans = ordering_of(I, fr, s.items[i], target)
            if pans:
                raise Unsupported('binary_search: comparison may panic')
            g = lambda k: o.alts[k][0] if k in o.alts else False
            cmp_at[i] = (g(0), g(1), g(2))
        return cmp_at[i]
    states = {0: True}
    size = n
    while size > 1:
        half = size // 2
        new = {}
        for base, g in states.items():
            mid = base + half
            gt = cmp(mid)[2]
            for b2, g2 in ((base, gand(g, gt)), (mid, gand(g, gnot(gt)))):
                if not g_false(g2):
                    new[b2] = gor(new.get(b2, False), g2)
        states = new
        size -= half
    res = None
    for base, g in states.items():
        lt, eq, gt = cmp(base)
        v = merge(eq, mk('Result', 0, [base]), merge(lt, mk('Result', 1, [base + 1]), mk('Result', 1, [base])))
        res = v if res is None else merge(g, v, res)
    return res


def register_batch3(M):
    A = M.add
    A('slice', None, 'binary_search', m_binary_search)
    A('Rc', 'Default', 'default', m_rc_default)
    # Cow<'_, [T]> is kept transparent: an owned Vec / a borrowed slice is the sequence itself
    A('Vec', 'Into', 'into', lambda I, fr, a, ck: a[0])
    A('Cow', 'Deref', 'deref', m_vec_deref)
    A('mem', None, 'swap', m_mem_swap)
    A('mem', None, 'replace', m_mem_replace)
    A('mem', None, 'take', m_mem_take)
    A('Option', None, 'take', m_option_take)
    A('Option', None, 'or', m_option_or)
    A('Option', None, 'is_some_and', m_option_is_some_and)
    A('Option', None, 'filter', m_option_filter)
    A('bool', None, 'then', m_bool_then)
    A('bool', None, 'then_some', m_bool_then)
    for m in ('is_lt', 'is_eq', 'is_gt', 'is_le', 'is_ge', 'is_ne'):
        A('Ordering', None, m, m_ordering_pred)
    A('Ordering', None, 'reverse', m_ordering_reverse)
    A(None, 'Iterator', 'sum', m_iter_sum)
    A(None, 'Iterator', 'last', m_iter_last)
    A(None, 'Iterator', 'nth', m_iter_nth)
    A(None, 'Iterator', 'for_each', m_iter_for_each)
    A('Vec', None, 'truncate', m_vec_truncate)
    A('Vec', None, 'reverse', m_vec_reverse)
    A('slice', None, 'reverse', m_vec_reverse)
    A('slice', None, 'swap', m_vec_swap)
    A('Vec', None, 'swap', m_vec_swap)
    A('slice', None, 'iter_mut', m_vec_iter_mut)
    A('Vec', None, 'first', m_slice_first)
    A('Vec', None, 'last', m_slice_last)
    A('String', None, 'push_str', m_string_push_str)
    A('str', None, 'len', m_str_len)
    A('String', None, 'len', m_str_len)
    A('str', None, 'is_empty', m_str_is_empty)
    A('String', None, 'is_empty', m_str_is_empty)
    for m in ('starts_with', 'ends_with', 'contains'):
        A('str', None, m, m_str_pred)
    A('Rc', None, 'strong_count', m_rc_strong_count)
    A('Rc', None, 'weak_count', m_rc_count)
    A('HashMap', None, 'entry', m_entry_or_insert)
