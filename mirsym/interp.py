"""MIRSYM interpreter: bounded symbolic execution of rustc MIR bodies into z3 terms.

 * path-wise forking at symbolic `switchInt`s inside a body, merging of the outcomes at function return
   (guarded unions / ite), outcomes that cannot be merged (different concrete shapes) stay separate;
 * calls memoised on the identity of their arguments and of the reachable mutable cells;
 * panics are outcomes with a guard; they propagate to the caller and end up in the harness as the panic condition.
"""
import re
import sys
import z3

from . import mirparse as mp
from .mirparse import Unsupported, Place, Operand, Const
from .values import *   # noqa
from . import values as V

sys.setrecursionlimit(100000)


class Outcome:
    __slots__ = ('kind', 'guard', 'value', 'mem', 'msg')

    def __init__(self, kind, guard, value, mem, msg=None):
        self.kind = kind      # 'ret' | 'panic'
        self.guard = guard
        self.value = value
        self.mem = mem
        self.msg = msg


class Outs(list):
    """a model may return Outs([...Outcome]) for several guarded outcomes"""
    pass


class PanicNow(Exception):
    def __init__(self, msg):
        self.msg = msg


class CellState:
    """content of a RefCell cell: (content value, borrow counter: 0 free, n>0 shared, -1 exclusive)"""
    __slots__ = ('content', 'borrow', 'cells')

    def __init__(self, content, borrow=0):
        self.content = content
        self.borrow = borrow
        self.cells = cells_of(content)


class Frame:
    __slots__ = ('item', 'locals', 'boxed', 'mem', 'own_cells', 'visits')

    def __init__(self, item, mem):
        self.item = item
        self.locals = {}
        self.boxed = {}
        self.mem = mem
        self.own_cells = []
        self.visits = None

    def fork(self):
        f = Frame(self.item, self.mem)
        f.locals = dict(self.locals)
        f.boxed = dict(self.boxed)
        f.own_cells = list(self.own_cells)
        f.visits = dict(self.visits) if self.visits else None
        return f


ORD_PRED = {'Eq': lambda i, j: i == j, 'Ne': lambda i, j: i != j, 'Lt': lambda i, j: i < j, 'Le': lambda i, j: i <= j,
            'Gt': lambda i, j: i > j, 'Ge': lambda i, j: i >= j, 'Cmp': None}

GENERIC_RE = re.compile(r'^(?:[A-Z]|Symbol|CmpFn|__H|Self)$')


def norm_type_name(t):
    """last path segment of a type, without generics and references:  '&std::rc::Rc<bdd::BDD<S>>' -> 'Rc'"""
    t = t.strip()
    while t.startswith('&'):
        t = t[1:].strip()
        if t.startswith("'"):
            t = t.split(' ', 1)[1] if ' ' in t else t
        if t.startswith('mut '):
            t = t[4:]
    if t.startswith('dyn '):
        t = t[4:]
    if t.startswith('['):
        return 'slice'
    if t.startswith('('):
        return 'tuple'
    if t.startswith('{closure@'):
        return 'closure'
    t = mp.strip_generics(t)
    return t.split('::')[-1].strip()


def ref_levels(t):
    n = 0
    t = t.strip()
    while t.startswith('&'):
        n += 1
        t = t[1:].strip()
        if t.startswith('mut '):
            t = t[4:]
    return n


class CallKey:
    __slots__ = ('selfty', 'trait', 'method', 'raw', 'selfraw', 'levels', 'path')

    def __init__(self, raw):
        self.raw = raw
        raw = raw.strip()
        self.levels = 0
        self.selfraw = None
        if raw.startswith('<'):
            e = mp.find_matching(raw, 0)
            inner = raw[1:e]
            rest = raw[e + 1:]
            parts = mp.split_top(inner, ' as ')
            self.selfraw = parts[0]
            self.levels = ref_levels(parts[0])
            self.selfty = norm_type_name(parts[0])
            self.trait = norm_type_name(parts[1]) if len(parts) > 1 else None
            rest = mp.strip_generics(rest)
            self.method = rest[2:] if rest.startswith('::') else rest
            self.path = None
        else:
            s = mp.strip_generics(raw)
            segs = [x for x in s.split('::') if x]
            self.method = segs[-1]
            self.selfty = segs[-2] if len(segs) >= 2 else None
            self.trait = None
            self.path = segs

    def __repr__(self):
        return 'CallKey(%s,%s,%s)' % (self.selfty, self.trait, self.method)


class Interp:
    def __init__(self, items, defs, models, config=None):
        self.items = items
        self.defs = defs
        self.models = models
        self.cfg = dict(overflow_checks=True, rc_new_owned=True, trusted_owner_fns=())
        if config:
            self.cfg.update(config)
        self.by_key = {}
        self.by_closure = {}
        self.by_name = {}
        self.promoted_cache = {}
        for it in items:
            self.by_name[it.name] = it
            if it.kind != 'fn':
                continue
            impl = None
            if it.span:
                try:
                    impl = defs.impl_of_span(it.span)
                except Unsupported:
                    impl = None
            if '{closure#' in it.last:
                m = re.match(r'^&?(?:mut )?(\{closure@[^}]*\})$', it.arg_types[0]) if it.arg_types else None
                if m:
                    self.by_closure[m.group(1)] = it
                continue
            if impl:
                it.key = (impl[0], impl[1], it.last)
            else:
                it.key = (None, None, it.last)
            self.by_key[it.key] = it
        self.memo = {}
        self.next_cell = 1
        self.fresh_n = 0
        self.covered = set()
        self.stats = dict(calls=0, memo_hits=0, stmts=0, forks=0, lookups=0)
        self.callkeys = {}
        self.events = None        # optional list for recorded output events
        self.hit_vars = []
        self.insert_obligations = []   # (guard-relative, term) not used for memoised bodies; see models
        self.depth = 0
        self.max_depth = self.cfg.get('max_depth', 600)
        self.call_stack = []
        self.cur_guard = True
        self.prov = None          # provenance mode (C13): {'allocs': {var name: Bool var}, 'inserted': {var name: guard}}
        self.hooks = {}           # name -> python callable overriding a crate function (harness stubs)

    # --------------------------------------------------------------------------------------- utilities
    def fresh_bool(self, prefix):
        self.fresh_n += 1
        return z3.Bool('%s!%d' % (prefix, self.fresh_n))

    def fresh_bv(self, prefix, bits=64):
        self.fresh_n += 1
        return z3.BitVec('%s!%d' % (prefix, self.fresh_n), bits)

    def new_cell(self):
        c = self.next_cell
        self.next_cell += 1
        return c

    def find_item(self, ty, trait, method):
        return self.by_key.get((ty, trait, method))

    # --------------------------------------------------------------------------------------- types
    def place_type(self, item, place):
        t = item.locals.get(place.local)
        for p in place.proj:
            if t is None:
                return None
            k = p[0]
            if k == 'field':
                t = p[2]
            elif k == 'deref':
                t = t.strip()
                if t.startswith('&'):
                    t = t[1:].strip()
                    if t.startswith("'"):
                        t = t.split(' ', 1)[1]
                    if t.startswith('mut '):
                        t = t[4:]
                elif t.startswith('*const ') or t.startswith('*mut '):
                    t = t.split(' ', 1)[1]
                else:
                    m = re.match(r'^(?:std::boxed::)?Box<(.*)>$', t)
                    t = m.group(1) if m else None
            elif k in ('index', 'cindex'):
                t = t.strip()
                if t.startswith('['):
                    inner = t[1:-1]
                    parts = mp.split_top(inner, ';')
                    t = parts[0].strip()
                else:
                    t = None
            elif k == 'downcast':
                pass
            else:
                t = None
        return t

    def operand_type(self, item, op):
        if op.kind == 'const':
            c = op.const
            if c.kind == 'int':
                return c.ty
            if c.kind == 'bool':
                return 'bool'
            return None
        return self.place_type(item, op.place)

    # --------------------------------------------------------------------------------------- places
    def local_get(self, fr, n):
        c = fr.boxed.get(n)
        if c is not None:
            return fr.mem[c]
        try:
            return fr.locals[n]
        except KeyError:
            return UNINIT

    def local_set(self, fr, n, v):
        c = fr.boxed.get(n)
        if c is not None:
            m = dict(fr.mem)
            m[c] = v
            fr.mem = m
        else:
            fr.locals[n] = v

    def read_place(self, fr, place):
        v = self.local_get(fr, place.local)
        proj = place.proj
        i, n = 0, len(proj)
        while i < n:
            p = proj[i]
            k = p[0]
            if v is POISON:
                return POISON
            if k == 'deref':
                v = self.deref(fr, v)
            elif k == 'field':
                v = self.field(v, p[1])
            elif k == 'downcast':
                # must be followed by a field
                if i + 1 < n and proj[i + 1][0] == 'field':
                    v = self.variant_field(v, p[1], proj[i + 1][1])
                    i += 1
                else:
                    v = self.variant_view(v, p[1])
            elif k == 'index':
                idx = self.local_get(fr, p[1])
                v = self.index_read(v, idx)
            elif k == 'cindex':
                items = self.seq_items(v)
                v = items[len(items) - p[1]] if p[2] else items[p[1]]
            elif k == 'subslice':
                items = self.seq_items(v)
                v = Seq(items[p[1]:len(items) - p[2]] if p[3] else items[p[1]:p[2]])
            else:
                raise EngineError('projection %r' % (p,))
            i += 1
        return v

    def seq_items(self, v):
        if isinstance(v, Seq):
            return v.items
        raise EngineError('expected sequence, got %s' % type(v).__name__)

    def deref(self, fr, v):
        if isinstance(v, SRef):
            return v.val
        if isinstance(v, MRef):
            return get_mpath(self, fr.mem[v.cell], v.path)
        if isinstance(v, BoxV):
            return v.inner
        if v is POISON:
            return POISON
        raise EngineError('deref of %s' % type(v).__name__)

    def field(self, v, i):
        if isinstance(v, Adt):
            if len(v.alts) == 1:
                (g, fs), = v.alts.values()
                if i >= len(fs):
                    raise EngineError('field %d of %s (%d fields)' % (i, v.ty, len(fs)))
                return fs[i]
            raise EngineError('field of multi-variant %s without downcast' % v.ty)
        if isinstance(v, BoxV):
            return v           # Box.0 (Unique) .0 (NonNull) .pointer: same pointer
        if isinstance(v, Closure):
            return v.caps[i]
        if isinstance(v, IterV):
            return v.fields[i]
        if isinstance(v, Seq) and i == 0:
            return v           # ManuallyDrop / MaybeUninit wrappers
        if v is POISON:
            return POISON
        raise EngineError('field %d of %s' % (i, type(v).__name__))

    def variant_index(self, ty, name):
        return self.defs.variant_index(ty, name)

    def variant_field(self, v, vname, i):
        if v is POISON:
            return POISON
        if not isinstance(v, Adt):
            raise EngineError('downcast of %s' % type(v).__name__)
        idx = self.variant_index(v.ty, vname)
        alt = v.alts.get(idx)
        if alt is None:
            return POISON
        return alt[1][i]

    def variant_view(self, v, vname):
        if v is POISON:
            return POISON
        idx = self.variant_index(v.ty, vname)
        alt = v.alts.get(idx)
        if alt is None:
            return POISON
        return Adt(v.ty, {idx: (True, alt[1])})

    def index_read(self, v, idx):
        items = self.seq_items(v)
        if isinstance(idx, int):
            if idx < 0 or idx >= len(items):
                return POISON
            return items[idx]
        # symbolic index: ite chain (bounds were checked by the preceding MIR assert / model)
        if not items:
            return POISON
        res = items[-1]
        for j in range(len(items) - 2, -1, -1):
            res = merge(idx == z3.BitVecVal(j, idx.size()), items[j], res)
        return res

    # resolve a place to (cell or ('local', n), path) for writing / &mut
    def resolve_mut(self, fr, place, box=True):
        n = place.local
        root = None
        path = []
        c = fr.boxed.get(n)
        if c is not None:
            root = c
        proj = place.proj
        cur_local = n
        i, ln = 0, len(proj)
        while i < ln:
            p = proj[i]
            k = p[0]
            if k == 'deref':
                # value at current (root,path)
                cur = self.read_root(fr, root, cur_local, path)
                if isinstance(cur, MRef):
                    root = cur.cell
                    path = list(cur.path)
                    cur_local = None
                elif isinstance(cur, BoxV):
                    path.append(('box',))
                elif cur is POISON:
                    return None, None
                else:
                    raise EngineError('write through %s' % type(cur).__name__)
            elif k == 'field':
                path.append(('field', p[1]))
            elif k == 'downcast':
                path.append(('downcast', p[1]))
            elif k == 'index':
                path.append(('index', self.local_get(fr, p[1])))
            elif k == 'cindex':
                if p[2]:
                    cur = self.read_root(fr, root, cur_local, path)
                    path.append(('index', len(self.seq_items(cur)) - p[1]))
                else:
                    path.append(('index', p[1]))
            else:
                raise EngineError('mutable projection %r' % (p,))
            i += 1
        if root is None:
            if not box:
                return ('local', cur_local), tuple(path)
            # box the local
            c = self.new_cell()
            m = dict(fr.mem)
            m[c] = fr.locals.get(cur_local, UNINIT)
            fr.mem = m
            fr.boxed[cur_local] = c
            fr.own_cells.append(c)
            fr.locals.pop(cur_local, None)
            root = c
        return root, tuple(path)

    def read_root(self, fr, root, local, path):
        base = fr.mem[root] if root is not None else self.local_get(fr, local)
        return get_mpath(self, base, path)

    def write_place(self, fr, place, val):
        if not place.proj:
            self.local_set(fr, place.local, val)
            return
        root, path = self.resolve_mut(fr, place, box=False)
        if root is None:
            return
        if isinstance(root, tuple):
            n = root[1]
            old = self.local_get(fr, n)
            self.local_set(fr, n, set_mpath(self, old, path, val))
        else:
            m = dict(fr.mem)
            m[root] = set_mpath(self, fr.mem[root], path, val)
            fr.mem = m

    # --------------------------------------------------------------------------------------- operands
    def eval_operand(self, fr, op):
        if op.kind == 'const':
            return self.eval_const(fr, op.const)
        v = self.read_place(fr, op.place)
        if op.kind == 'move' and not op.place.proj:
            # leave a marker; reading MOVED later is an engine error only if used
            pass
        return v

    def eval_const(self, fr, c):
        k = c.kind
        if k == 'int' or k == 'bool':
            return c.value
        if k == 'unit':
            return UNIT
        if k == 'str':
            return mk_sref(Str(c.value))
        if k == 'bytes':
            return mk_sref(Opaque('bytes', c.value))
        if k == 'char':
            return ord(c.value)
        if k == 'zst':
            t = c.ty.strip()
            if t.startswith('{closure@'):
                return Closure(t, ())
            if t.startswith('fn(') or ' fn(' in t or t.startswith('for<'):
                m = re.search(r'\{([^{}]*)\}\s*$', t)
                if m:
                    return FnItem(m.group(1))
            return Opaque('zst:' + norm_type_name(t))
        if k == 'fnitem':
            return FnItem(c.value)
        if k == 'promoted':
            return self.eval_promoted(fr, c.value)
        if k == 'assoc':
            if c.value.endswith('::ALIGN'):
                return 1
            if c.value.endswith('::SIZE'):
                return 8
            raise Unsupported('assoc const ' + c.value)
        if k == 'float':
            return Opaque('float', c.value)
        if k == 'other':
            # named constants / unit structs
            return Opaque('const:' + c.value)
        raise Unsupported('const ' + repr(c))

    def eval_promoted(self, fr, name):
        # name like  'bdd::<impl at ...>::mk_const::promoted[0]'  or '<path>::promoted[N]' printed with call-site path
        it = self.by_name.get(name)
        if it is None:
            # call-site spelling differs from the item header; match on the trailing 'fn::promoted[N]' of this function
            tail = mp._last_segments(mp.strip_generics(name))
            cands = [x for x in self.items if x.kind == 'const' and x.last == tail]
            # prefer the one belonging to the currently executing function
            cur = fr.item.name if fr is not None else ''
            idx = name[name.rindex('::promoted['):]
            pref = [x for x in cands if x.name == cur + idx]
            if len(pref) == 1:
                it = pref[0]
            elif len(cands) == 1:
                it = cands[0]
            else:
                raise Unsupported('cannot resolve promoted ' + name)
        if it.name in self.promoted_cache:
            return self.promoted_cache[it.name]
        outs = self.exec_body(it, [], {})
        if len(outs) != 1 or outs[0].kind != 'ret':
            raise EngineError('promoted ' + name)
        self.promoted_cache[it.name] = outs[0].value
        return outs[0].value

    # --------------------------------------------------------------------------------------- rvalues
    def eval_rvalue(self, fr, rv, stmt):
        k = rv.kind
        if k == 'use':
            return self.eval_operand(fr, rv.a)
        if k == 'ref':
            return mk_sref(self.read_place(fr, rv.a)) if not self.is_reborrow_of_mut(fr, rv.a) else mk_sref(self.read_place(fr, rv.a))
        if k == 'refmut':
            root, path = self.resolve_mut(fr, rv.a, box=True)
            if root is None:
                return POISON
            return MRef(root, path)
        if k == 'discriminant':
            v = self.read_place(fr, rv.a)
            return self.discriminant(v)
        if k == 'cast':
            return self.cast(fr, rv, stmt)
        if k == 'binop':
            return self.binop(fr, rv, stmt)
        if k == 'unop':
            return self.unop(fr, rv, stmt)
        if k == 'tuple':
            return mk_tuple([self.eval_operand(fr, o) for o in rv.a])
        if k == 'array':
            return Seq([self.eval_operand(fr, o) for o in rv.a])
        if k == 'repeat':
            n = rv.b
            m = re.match(r'^(?:const )?(\d+)(?:_usize)?$', n)
            if not m:
                raise Unsupported('repeat count ' + n)
            v = self.eval_operand(fr, rv.a)
            return Seq([v] * int(m.group(1)))
        if k == 'adt':
            return self.aggregate(fr, rv)
        if k == 'closure':
            return Closure(rv.a, [self.eval_operand(fr, o) for _, o in rv.b])
        if k == 'len':
            v = self.read_place(fr, rv.a)
            return len(self.seq_items(v))
        raise Unsupported('rvalue kind ' + k)

    def is_reborrow_of_mut(self, fr, place):
        return False

    def discriminant(self, v):
        if v is POISON:
            return POISON
        if isinstance(v, Adt):
            return Disc(v)
        if isinstance(v, (bool, z3.BoolRef)):
            return v
        raise EngineError('discriminant of %s' % type(v).__name__)

    def aggregate(self, fr, rv):
        path = rv.a
        args = [self.eval_operand(fr, o) for o in rv.b]
        segs = path.split('::')
        last = segs[-1].strip()
        # struct literal
        if rv.c is not None:
            ty = last
            if ty in self.defs.enums and False:
                pass
            # enum struct-variant?  Type::Variant { .. }
            if len(segs) >= 2 and segs[-2] in self.defs.enums and last in self.defs.enums[segs[-2]]:
                return mk(segs[-2], self.defs.variant_index(segs[-2], last), args)
            return mk_struct(ty, args)
        if len(segs) >= 2 and segs[-2].strip() in self.defs.enums and last in self.defs.enums[segs[-2].strip()]:
            ty = segs[-2].strip()
            return mk(ty, self.defs.variant_index(ty, last), args)
        if last in self.defs.structs:
            return mk_struct(last, args)
        if last in self.defs.enums and not args:
            raise Unsupported('aggregate ' + path)
        # short-printed variants of well known std enums
        for ty in ('Option', 'Result', 'ControlFlow', 'Ordering', 'Cow'):
            if last in self.defs.enums[ty] and (len(segs) == 1 or segs[-2].strip() in (ty,)):
                return mk(ty, self.defs.variant_index(ty, last), args)
        if not args:
            return Opaque('unit:' + last)
        # tuple struct from std (e.g. Wrapping(x)) : keep as struct
        return mk_struct(last, args)

    # ---- integers
    def int_info(self, fr, op):
        t = self.operand_type(fr.item, op)
        if t is None:
            return None
        t = t.strip()
        if t == 'bool':
            return ('bool',)
        it = mp.int_type(t)
        if it:
            return it
        if t.startswith('*') or t.startswith('&'):
            return ('ptr',)
        return None

    def wrap(self, v, bits, signed):
        v &= (1 << bits) - 1
        if signed and v >> (bits - 1):
            v -= 1 << bits
        return v

    def to_bv(self, v, bits):
        if isinstance(v, OrdId):
            v = v.bv()
        if isinstance(v, bool):
            return z3.BitVecVal(1 if v else 0, bits)
        if isinstance(v, int):
            return z3.BitVecVal(v, bits)
        if isinstance(v, z3.BoolRef):
            return z3.If(v, z3.BitVecVal(1, bits), z3.BitVecVal(0, bits))
        if isinstance(v, z3.BitVecRef):
            if v.size() != bits:
                raise EngineError('bit-width mismatch: term has %d bits, type says %d' % (v.size(), bits))
            return v
        raise EngineError('integer expected, got %s' % type(v).__name__)

    def binop(self, fr, rv, stmt):
        op = rv.a
        a = self.eval_operand(fr, rv.b)
        b = self.eval_operand(fr, rv.c)
        if a is POISON or b is POISON:
            return POISON
        if (isinstance(a, tuple) and a[0] == 'disc') or (isinstance(b, tuple) and b[0] == 'disc'):
            if op not in ('Eq', 'Ne'):
                raise Unsupported('binop %s on discriminants' % op)
            e = disc_eq(self, a, b)
            return e if op == 'Eq' else gnot(e)
        if isinstance(a, OrdId) or isinstance(b, OrdId):
            if isinstance(a, OrdId) and isinstance(b, OrdId) and a.atoms is b.atoms and op in ORD_PRED:
                if op == 'Cmp':
                    return Adt('Ordering', {0: (a.rel(b, lambda i, j: i < j), ()), 1: (a.rel(b, lambda i, j: i == j), ()),
                                            2: (a.rel(b, lambda i, j: i > j), ())})
                return a.rel(b, ORD_PRED[op])
            if isinstance(a, OrdId):
                a = a.bv()
            if isinstance(b, OrdId):
                b = b.bv()
        info = self.int_info(fr, rv.b) or self.int_info(fr, rv.c)
        if info is None:
            # fall back on value shapes
            if isinstance(a, (bool, z3.BoolRef)):
                info = ('bool',)
            elif isinstance(a, z3.BitVecRef):
                info = (a.size(), False)
            elif isinstance(b, z3.BitVecRef):
                info = (b.size(), False)
            else:
                raise EngineError('cannot type binop in ' + stmt.text)
        if info[0] == 'ptr':
            # pointer alignment idiom: addresses are modelled as non-null and aligned
            if op in ('Eq', 'Ne'):
                raise EngineError('pointer comparison ' + stmt.text)
            return 4096
        if info[0] == 'bool':
            if op in ('BitAnd',):
                return gand(a, b)
            if op in ('BitOr',):
                return gor(a, b)
            if op in ('BitXor', 'Ne'):
                return gite(a, gnot(b), b) if is_sym(a) or is_sym(b) else (a != b)
            if op == 'Eq':
                return gite(a, b, gnot(b)) if is_sym(a) or is_sym(b) else (a == b)
            raise Unsupported('bool binop ' + op)
        bits, signed = info
        if op in ('Shl', 'Shr', 'ShlUnchecked', 'ShrUnchecked'):
            # shift amount may have another type
            binfo = self.int_info(fr, rv.c)
            if isinstance(b, z3.BitVecRef) and b.size() != bits:
                b = z3.ZeroExt(bits - b.size(), b) if b.size() < bits else z3.Extract(bits - 1, 0, b)
        if isinstance(a, int) and isinstance(b, int) and not isinstance(a, bool) and not isinstance(b, bool):
            return self.binop_concrete(op, a, b, bits, signed)
        A = self.to_bv(a, bits)
        B = self.to_bv(b, bits)
        if op in ('Add', 'AddUnchecked'):
            return A + B
        if op in ('Sub', 'SubUnchecked'):
            return A - B
        if op in ('Mul', 'MulUnchecked'):
            return A * B
        if op == 'BitAnd':
            return A & B
        if op == 'BitOr':
            return A | B
        if op == 'BitXor':
            return A ^ B
        if op in ('Shl', 'ShlUnchecked'):
            return A << (B & (bits - 1))
        if op in ('Shr', 'ShrUnchecked'):
            return (A >> (B & (bits - 1))) if signed else z3.LShR(A, B & (bits - 1))
        same = A is B or (isinstance(A, z3.ExprRef) and isinstance(B, z3.ExprRef) and A.eq(B))
        if op == 'Eq':
            return True if same else A == B
        if op == 'Ne':
            return False if same else A != B
        if op == 'Lt':
            return (A < B) if signed else z3.ULT(A, B)
        if op == 'Le':
            return (A <= B) if signed else z3.ULE(A, B)
        if op == 'Gt':
            return (A > B) if signed else z3.UGT(A, B)
        if op == 'Ge':
            return (A >= B) if signed else z3.UGE(A, B)
        if op == 'Div':
            return (A / B) if signed else z3.UDiv(A, B)
        if op == 'Rem':
            return z3.SRem(A, B) if signed else z3.URem(A, B)
        if op in ('AddWithOverflow', 'SubWithOverflow', 'MulWithOverflow'):
            if op == 'AddWithOverflow':
                r = A + B
                ov = z3.Not(z3.BVAddNoOverflow(A, B, signed))
                if signed:
                    ov = z3.Or(ov, z3.Not(z3.BVAddNoUnderflow(A, B)))
            elif op == 'SubWithOverflow':
                r = A - B
                if signed:
                    ov = z3.Or(z3.Not(z3.BVSubNoOverflow(A, B)), z3.Not(z3.BVSubNoUnderflow(A, B, True)))
                else:
                    ov = z3.ULT(A, B)
            else:
                r = A * B
                ov = z3.Not(z3.BVMulNoOverflow(A, B, signed))
                if signed:
                    ov = z3.Or(ov, z3.Not(z3.BVMulNoUnderflow(A, B)))
            return mk_tuple([r, ov])
        if op == 'Cmp':
            lt = (A < B) if signed else z3.ULT(A, B)
            return Adt('Ordering', {0: (lt, ()), 1: (A == B, ()), 2: (gand(gnot(lt), gnot(A == B)), ())})
        raise Unsupported('binop ' + op)

    def binop_concrete(self, op, a, b, bits, signed):
        w = lambda x: self.wrap(x, bits, signed)
        if op in ('Add', 'AddUnchecked'):
            return w(a + b)
        if op in ('Sub', 'SubUnchecked'):
            return w(a - b)
        if op in ('Mul', 'MulUnchecked'):
            return w(a * b)
        if op == 'BitAnd':
            return w(a & b)
        if op == 'BitOr':
            return w(a | b)
        if op == 'BitXor':
            return w(a ^ b)
        if op in ('Shl', 'ShlUnchecked'):
            return w(a << (b & (bits - 1)))
        if op in ('Shr', 'ShrUnchecked'):
            if signed:
                return w(a >> (b & (bits - 1)))
            return w((a & ((1 << bits) - 1)) >> (b & (bits - 1)))
        if op == 'Eq':
            return w(a) == w(b)
        if op == 'Ne':
            return w(a) != w(b)
        if op == 'Lt':
            return w(a) < w(b)
        if op == 'Le':
            return w(a) <= w(b)
        if op == 'Gt':
            return w(a) > w(b)
        if op == 'Ge':
            return w(a) >= w(b)
        if op == 'Div':
            if b == 0:
                return POISON
            q = abs(a) // abs(b)
            return w(q if (a < 0) == (b < 0) else -q)
        if op == 'Rem':
            if b == 0:
                return POISON
            r = abs(a) % abs(b)
            return w(r if a >= 0 else -r)
        if op in ('AddWithOverflow', 'SubWithOverflow', 'MulWithOverflow'):
            exact = a + b if op[0] == 'A' else (a - b if op[0] == 'S' else a * b)
            r = w(exact)
            return mk_tuple([r, r != exact])
        if op == 'Cmp':
            return mk('Ordering', 0 if a < b else (1 if a == b else 2))
        raise Unsupported('binop ' + op)

    def unop(self, fr, rv, stmt):
        op = rv.a
        a = self.eval_operand(fr, rv.b)
        if a is POISON:
            return POISON
        if op == 'Not':
            if isinstance(a, (bool, z3.BoolRef)):
                return gnot(a)
            info = self.int_info(fr, rv.b)
            if isinstance(a, int):
                return self.wrap(~a, info[0], info[1])
            return ~a
        if op == 'Neg':
            info = self.int_info(fr, rv.b)
            if isinstance(a, int):
                return self.wrap(-a, info[0], info[1])
            return -a
        if op == 'PtrMetadata':
            v = a
            while isinstance(v, (SRef,)):
                v = v.val
            if isinstance(v, MRef):
                v = get_mpath(self, fr.mem[v.cell], v.path)
            if isinstance(v, Seq):
                return len(v.items)
            if isinstance(v, Str):
                if isinstance(v.s, str):
                    return len(v.s.encode())
                raise EngineError('length of symbolic string')
            raise EngineError('PtrMetadata of %s' % type(v).__name__)
        raise Unsupported('unop ' + op)

    def cast(self, fr, rv, stmt):
        v = self.eval_operand(fr, rv.a)
        ty = rv.b.strip()
        kind = rv.c
        if v is POISON:
            return POISON
        if isinstance(v, tuple) and v[0] == 'disc':
            return v
        if kind == 'IntToInt':
            src = self.int_info(fr, rv.a)
            dst = mp.int_type(ty)
            if dst is None:
                raise Unsupported('cast to ' + ty)
            if src is None or src[0] in ('ptr',):
                raise EngineError('cast source type unknown: ' + stmt.text)
            if src[0] == 'bool':
                if isinstance(v, bool):
                    return 1 if v else 0
                return z3.If(v, z3.BitVecVal(1, dst[0]), z3.BitVecVal(0, dst[0]))
            sb, ss = src
            db, ds = dst
            if isinstance(v, int):
                return self.wrap(v, db, ds)
            v = self.to_bv(v, sb)
            if db == sb:
                return v
            if db < sb:
                return z3.Extract(db - 1, 0, v)
            return z3.SignExt(db - sb, v) if ss else z3.ZeroExt(db - sb, v)
        if kind == 'Transmute' or kind == 'PtrToPtr':
            if isinstance(v, BoxV):
                if isinstance(v.inner, SlotV):
                    return MRef(v.inner.cell, ())
                if ty.startswith('*const') or ty.startswith('*mut'):
                    return mk_sref(v.inner)
                return v
            if isinstance(v, (SRef, MRef)):
                if ty in ('usize',):
                    return 4096       # address: modelled as non-null and aligned
                return v
            if isinstance(v, Seq):
                return v
            if ty == 'usize' and isinstance(v, int):
                return v
            raise EngineError('transmute of %s to %s' % (type(v).__name__, ty))
        if kind.startswith('PointerCoercion'):
            return v
        if kind in ('PointerExposeProvenance', 'PointerWithExposedProvenance'):
            return 0
        raise Unsupported('cast kind ' + kind)

    # --------------------------------------------------------------------------------------- statements
    def exec_stmt(self, fr, st):
        if st.kind == 'nop':
            return
        if st.kind == 'assign':
            v = self.eval_rvalue(fr, st.rv, st)
            if not st.place.proj:
                self.local_set(fr, st.place.local, v)
            else:
                self.write_place(fr, st.place, v)
            return
        if st.kind == 'setdisc':
            raise Unsupported('SetDiscriminant')
        raise Unsupported('stmt ' + st.kind)

    # --------------------------------------------------------------------------------------- switch
    def switch_arms(self, fr, term):
        """-> list of (cond, target_bb)"""
        v = self.eval_operand(fr, term.a)
        targets, otherwise = term.b, term.c
        if v is POISON:
            return []
        if isinstance(v, tuple) and v[0] == 'disc':
            adt = v[1]
            arms = {}
            order = []
            tmap = {}
            for val, bb in targets:
                tmap[val & 0xffffffffffffffff] = bb
            for idx, (g, fs) in adt.alts.items():
                d = self.defs.discr_value(adt.ty, idx) if adt.ty in self.defs.enums else idx
                dd = d & 0xffffffffffffffff
                # discriminants of small enums are printed with their own width (e.g. i8 -1 = 255)
                bb = tmap.get(dd)
                if bb is None and d < 0:
                    for w in (8, 16, 32):
                        bb = tmap.get(d & ((1 << w) - 1))
                        if bb is not None:
                            break
                if bb is None:
                    bb = otherwise
                if bb is None:
                    continue
                if bb not in arms:
                    arms[bb] = g
                    order.append(bb)
                else:
                    arms[bb] = gor(arms[bb], g)
            return [(arms[bb], bb) for bb in order if not g_false(arms[bb])]
        if isinstance(v, bool):
            v = 1 if v else 0
        if isinstance(v, int):
            for val, bb in targets:
                if val == v or (v < 0 and val == (v & 0xffffffffffffffff)):
                    return [(True, bb)]
            if otherwise is None:
                return []
            return [(True, otherwise)]
        if isinstance(v, z3.BoolRef):
            arms = []
            rest = True
            for val, bb in targets:
                c = v if val else gnot(v)
                if not g_false(c):
                    arms.append((c, bb))
                rest = gand(rest, gnot(c))
            if otherwise is not None and not g_false(rest):
                arms.append((rest, otherwise))
            return arms
        if isinstance(v, z3.BitVecRef):
            arms = []
            rest = True
            bits = v.size()
            for val, bb in targets:
                c = v == z3.BitVecVal(val, bits)
                arms.append((c, bb))
                rest = gand(rest, gnot(c))
            if otherwise is not None:
                arms.append((rest, otherwise))
            return arms
        raise EngineError('switch on %s' % type(v).__name__)

    # --------------------------------------------------------------------------------------- bodies
    def exec_body(self, item, args, mem):
        if self.depth > self.max_depth:
            raise EngineError('call depth bound exceeded in ' + item.last)
        self.depth += 1
        self.call_stack.append((getattr(item, 'key', None), args))
        try:
            return self._exec_body(item, args, mem)
        finally:
            self.depth -= 1
            self.call_stack.pop()

    def _exec_body(self, item, args, mem):
        fr0 = Frame(item, mem)
        if len(args) != item.nargs:
            raise EngineError('arity of %s: %d args for %d params' % (item.name, len(args), item.nargs))
        for i, a in enumerate(args):
            fr0.locals[i + 1] = a
        work = [(0, fr0, True)]
        outs = []
        cov = self.covered
        name = item.name
        while work:
            bb, fr, guard = work.pop()
            while True:
                block = item.blocks[bb]
                if block.stmts is None:
                    mp.parse_block(block)
                cov.add((name, bb))
                for st in block.stmts:
                    self.exec_stmt(fr, st)
                self.stats['stmts'] += len(block.stmts) + 1
                t = block.term
                k = t.kind
                if k == 'goto':
                    if t.a <= bb:
                        # back edge: bounded unrolling
                        if fr.visits is None:
                            fr.visits = {}
                        n = fr.visits.get(t.a, 0) + 1
                        fr.visits[t.a] = n
                        if n > self.cfg.get('loop_bound', 40):
                            outs.append(Outcome('panic', guard, None, None, 'UNWIND: loop bound %d exceeded @%s' % (self.cfg.get('loop_bound', 40), item.last)))
                            break
                    bb = t.a
                    continue
                if k == 'return':
                    rv = self.local_get(fr, 0)
                    m = fr.mem
                    if fr.own_cells:
                        m = dict(m)
                        for c in fr.own_cells:
                            m.pop(c, None)
                    outs.append(Outcome('ret', guard, rv, m))
                    break
                if k == 'switch':
                    arms = self.switch_arms(fr, t)
                    if not arms:
                        break           # infeasible path
                    if len(arms) > 1:
                        self.stats['forks'] += len(arms) - 1
                        for c, tb in arms[1:]:
                            work.append((tb, fr.fork(), gand(guard, c)))
                    guard = gand(guard, arms[0][0])
                    bb = arms[0][1]
                    continue
                if k == 'drop':
                    self.do_drop(fr, t.a)
                    bb = t.b
                    continue
                if k == 'assert':
                    c = self.eval_operand(fr, t.a)
                    if c is POISON:
                        break
                    if t.b:
                        c = gnot(c)
                    msg = t.c
                    is_overflow = 'overflow' in msg
                    if is_overflow and not self.cfg['overflow_checks']:
                        bb = t.d
                        continue
                    if g_true(c):
                        bb = t.d
                        continue
                    outs.append(Outcome('panic', gand(guard, gnot(c)), None, None, 'assert: ' + msg.strip('"')[:60] + ' @' + item.last))
                    if g_false(c):
                        break
                    guard = gand(guard, c)
                    bb = t.d
                    continue
                if k == 'call':
                    self.cur_guard = guard
                    res = self.do_call(fr, t)
                    nxt = t.d
                    conts = []
                    for o in res:
                        if o.kind == 'panic':
                            outs.append(Outcome('panic', gand(guard, o.guard), None, None, o.msg))
                        elif nxt is not None:
                            conts.append(o)
                    if not conts:
                        break
                    if len(conts) == 1:
                        o = conts[0]
                        fr.mem = o.mem
                        if t.a is not None:
                            self.write_place(fr, t.a, o.value)
                        guard = gand(guard, o.guard)
                        bb = nxt
                        continue
                    self.stats['forks'] += len(conts) - 1
                    for o in conts[1:]:
                        f2 = fr.fork()
                        f2.mem = o.mem
                        if t.a is not None:
                            self.write_place(f2, t.a, o.value)
                        work.append((nxt, f2, gand(guard, o.guard)))
                    o = conts[0]
                    fr.mem = o.mem
                    if t.a is not None:
                        self.write_place(fr, t.a, o.value)
                    guard = gand(guard, o.guard)
                    bb = nxt
                    continue
                if k == 'unreachable':
                    # reachable only on an infeasible path (or a genuine UB); record as panic so that it is not lost
                    outs.append(Outcome('panic', guard, None, None, 'unreachable reached @' + item.last))
                    break
                if k == 'resume':
                    break
                raise Unsupported('terminator ' + k)
        return self.merge_outcomes(outs)

    def merge_outcomes(self, outs):
        rets = [o for o in outs if o.kind == 'ret' and not g_false(o.guard)]
        panics = {}
        for o in outs:
            if o.kind == 'panic' and not g_false(o.guard):
                if o.msg in panics:
                    panics[o.msg] = gor(panics[o.msg], o.guard)
                else:
                    panics[o.msg] = o.guard
        groups = []
        for o in rets:
            placed = False
            for i, g in enumerate(groups):
                try:
                    groups[i] = self.merge_two(g, o)
                    placed = True
                    break
                except Unmergeable:
                    continue
            if not placed:
                groups.append(o)
        res = list(groups)
        for msg, g in panics.items():
            res.append(Outcome('panic', g, None, None, msg))
        return res

    def merge_two(self, a, b):
        c = a.guard
        if g_true(c) and g_true(b.guard):
            raise EngineError('two unconditional outcomes')
        val = merge(c, a.value, b.value)
        ma, mb = a.mem, b.mem
        if ma is mb:
            mem = ma
        else:
            if ma.keys() != mb.keys():
                raise Unmergeable()
            mem = {}
            for k, x in ma.items():
                y = mb[k]
                if x is y:
                    mem[k] = x
                elif isinstance(x, CellState):
                    if not isinstance(y, CellState) or x.borrow != y.borrow:
                        raise Unmergeable()
                    mem[k] = CellState(merge(c, x.content, y.content), x.borrow)
                else:
                    mem[k] = merge(c, x, y)
        return Outcome('ret', gor(a.guard, b.guard), val, mem)

    def do_drop(self, fr, place):
        v = self.read_place(fr, place)
        self.drop_value(fr, v)

    def drop_value(self, fr, v):
        if isinstance(v, BorrowGuard):
            st = fr.mem.get(v.cell)
            if st is None:
                return
            if v.mut:
                nb = 0
            else:
                nb = max(0, st.borrow - 1)
            m = dict(fr.mem)
            m[v.cell] = CellState(st.content, nb)
            fr.mem = m
        elif isinstance(v, Adt) and v.cells:
            for g, fs in v.alts.values():
                for f in fs:
                    if isinstance(f, (BorrowGuard, Adt)):
                        self.drop_value(fr, f)

    # --------------------------------------------------------------------------------------- calls
    def do_call(self, fr, term):
        self.stats['calls'] += 1
        args = [self.eval_operand(fr, o) for o in term.c]
        for a in args:
            if a is POISON:
                return []
        if term.e is not None:
            # call through a function value (fn pointer / fn item in a local)
            f = self.eval_operand(fr, term.e)
            return self.call_value(fr, f, args)
        ck = self.callkeys.get(term.b)
        if ck is None:
            ck = CallKey(term.b)
            self.callkeys[term.b] = ck
        return self.dispatch(fr, ck, args, term)

    def call_value(self, fr, f, args):
        if isinstance(f, FnItem):
            ck = CallKey(f.path)
            return self.dispatch(fr, ck, args, None)
        if isinstance(f, Closure):
            it = self.by_closure.get(f.cid)
            if it is None:
                raise EngineError('no body for ' + f.cid)
            selfarg = mk_sref(f) if it.arg_types[0].lstrip().startswith('&') else f
            return self.call_item(it, [selfarg] + list(args), fr.mem)
        if callable(f):
            return self.wrap_model_result(f(self, fr, args), fr)
        raise EngineError('call of %s' % type(f).__name__)

    def peel(self, v, n, fr):
        for _ in range(n):
            if isinstance(v, SRef):
                v = v.val
            elif isinstance(v, MRef):
                v = get_mpath(self, fr.mem[v.cell], v.path)
            else:
                raise EngineError('expected reference, got %s' % type(v).__name__)
        return v

    def runtime_type(self, v):
        if isinstance(v, Adt):
            return v.ty
        if isinstance(v, RcV):
            return 'Rc'
        if isinstance(v, BoxV):
            return 'Box'
        if isinstance(v, Seq):
            return 'Vec'
        if isinstance(v, Str):
            return 'String'
        if isinstance(v, (bool, z3.BoolRef)):
            return 'bool'
        if isinstance(v, (int, z3.BitVecRef, OrdId)):
            return 'usize'
        if isinstance(v, (Closure, PyFn)):
            return 'closure'
        if isinstance(v, FnItem):
            return 'fnitem'
        if isinstance(v, SRef) or isinstance(v, MRef):
            return 'ref'
        if isinstance(v, Opaque):
            return 'opaque:' + v.tag
        if isinstance(v, IterV):
            return 'iter:' + v.kind
        return type(v).__name__

    def dispatch(self, fr, ck, args, term):
        # 2. crate function by static key
        if ck.trait is None:
            it = None
            if ck.selfty is not None:
                it = self.by_key.get((ck.selfty, None, ck.method))
            if it is None:
                it = self.by_key.get((None, None, ck.method)) if (ck.path is not None and (len(ck.path) == 1 or ck.path[-2] in ('parser', 'bdd', 'set', 'symbols', 'truth_table', 'crate', 'rsbdd', 'bdd_io', 'parser_io', 'plot'))) else None
            if it is not None:
                m = self.models.lookup_override(ck)
                if m is not None:
                    return self.wrap_model_result(m(self, fr, args, ck), fr)
                return self.call_item(it, args, fr.mem)
            m = self.models.lookup(ck, None)
            if m is None:
                raise Unsupported('no model for call %s  [%s]' % (ck.raw, ck))
            return self.wrap_model_result(m(self, fr, args, ck), fr)
        # 3. trait-qualified call: find the dynamic Self type
        selfty = ck.selfty
        dyn = None
        if args:
            v0 = args[0]
            try:
                dyn = self.runtime_type(self.peel_all(v0, fr))
            except EngineError:
                dyn = None
        generic = selfty is None or GENERIC_RE.match(selfty) is not None
        ty = dyn if generic else selfty
        # crate impl of the trait for that type?
        it = self.by_key.get((ty, ck.trait, ck.method))
        if it is None and dyn is not None and dyn != ty:
            it = self.by_key.get((dyn, ck.trait, ck.method))
            if it is not None:
                ty = dyn
        if it is not None and self.models.interpret_impl(ty, ck.trait, ck.method):
            a2 = self.adapt_receivers(fr, ck, it, args)
            return self.call_item(it, a2, fr.mem)
        m = self.models.lookup(ck, ty) or (self.models.lookup(ck, dyn) if dyn else None)
        if m is None:
            raise Unsupported('no model for trait call %s  [%s; dyn=%s]' % (ck.raw, ck, dyn))
        return self.wrap_model_result(m(self, fr, args, ck), fr)

    def peel_all(self, v, fr):
        while True:
            if isinstance(v, SRef):
                v = v.val
            elif isinstance(v, MRef):
                v = get_mpath(self, fr.mem[v.cell], v.path)
            else:
                return v

    def adapt_receivers(self, fr, ck, it, args):
        """`<&T as Trait>::m(&&T, &&T)` forwards to `<T as Trait>::m(&T, &T)`: strip the extra reference levels"""
        n = ck.levels
        if n == 0:
            return args
        out = []
        for a, pt in zip(args, it.arg_types):
            want = ref_levels(pt)
            v = a
            # count levels of a
            have = 0
            t = v
            while isinstance(t, SRef):
                have += 1
                t = t.val
            while have > want:
                v = v.val
                have -= 1
            out.append(v)
        return out

    def wrap_model_result(self, r, fr):
        if isinstance(r, list) and (not r or isinstance(r[0], Outcome)):
            for o in r:
                if o.kind == 'ret' and o.mem is None:
                    o.mem = fr.mem
            return r
        return [Outcome('ret', True, r, fr.mem)]

    # --------------------------------------------------------------------------------------- memoised calls
    def vkey(self, a):
        if isinstance(a, bool):
            return ('b', a)
        if isinstance(a, int):
            return ('i', a)
        if isinstance(a, z3.ExprRef):
            return ('z', a.get_id())
        if isinstance(a, OrdId) and len(a.alts) == 1:
            (i, g), = a.alts.items()
            if g is True:
                return ('o', id(a.atoms), i)
        if isinstance(a, MRef):
            return ('m', a.cell, tuple((p[0], self.vkey(p[1]) if len(p) > 1 else None) for p in a.path))
        if isinstance(a, IterV):
            return ('it', a.kind, tuple(self.vkey(f) for f in a.fields))
        if isinstance(a, SRef):
            return ('r', self.vkey(a.val))
        if isinstance(a, Adt) and a.ty in ('PeekState', 'Option') and len(a.alts) <= 2:
            return (a.ty, tuple(sorted((i, self.vkey(g), tuple(self.vkey(f) for f in fs)) for i, (g, fs) in a.alts.items())))
        return id(a)

    def mem_key(self, roots, mem):
        if not roots:
            return ()
        seen = set()
        todo = list(roots)
        out = []
        while todo:
            c = todo.pop()
            if c in seen:
                continue
            seen.add(c)
            x = mem.get(c)
            if x is None:
                out.append((c, None))
                continue
            if isinstance(x, CellState):
                out.append((c, self.vkey(x.content), x.borrow))
            else:
                out.append((c, self.vkey(x)))
            cs = cells_of(x)
            if cs:
                todo.extend(cs)
        out.sort(key=lambda t: t[0])
        return tuple(out)

    def call_item(self, item, args, mem):
        hook = self.hooks.get(getattr(item, 'key', None)) if self.hooks else None
        if hook is not None:
            fr = Frame(item, mem)
            r = hook(self, fr, args)
            if r is not NotImplemented:
                self.stats['summarised'] = self.stats.get('summarised', 0) + 1
                return self.wrap_model_result(r, fr)
        roots = EMPTY
        for a in args:
            c = cells_of(a)
            if c:
                roots = roots | c
        key = (item.name, tuple(self.vkey(a) for a in args), self.mem_key(roots, mem))
        ent = self.memo.get(key)
        if ent is not None:
            self.stats['memo_hits'] += 1
            outs = []
            for kind, guard, value, delta, msg in ent[0]:
                if kind == 'panic':
                    outs.append(Outcome('panic', guard, None, None, msg))
                else:
                    if delta:
                        m = dict(mem)
                        m.update(delta)
                    else:
                        m = mem
                    outs.append(Outcome('ret', guard, value, m))
            return outs
        outs = self.exec_body(item, args, mem)
        # record deltas
        rec = []
        memoisable = True
        for o in outs:
            if o.kind == 'panic':
                rec.append(('panic', o.guard, None, None, o.msg))
                continue
            delta = {}
            if o.mem is not mem:
                for k, x in o.mem.items():
                    y = mem.get(k)
                    if y is None:
                        memoisable = False       # a cell allocated by the callee escapes
                        break
                    if x is not y:
                        if isinstance(x, CellState) and isinstance(y, CellState) and x.content is y.content and x.borrow == y.borrow:
                            continue
                        delta[k] = x
                for k in mem:
                    if k not in o.mem:
                        memoisable = False
            rec.append(('ret', o.guard, o.value, delta, None))
        if memoisable:
            self.memo[key] = (rec, args, mem)
        return outs

    # --------------------------------------------------------------------------------------- top level
    def run(self, ty, trait, method, args, mem=None):
        """run a crate function from the harness; returns merged outcomes"""
        it = self.by_key.get((ty, trait, method))
        if it is None:
            raise Unsupported('crate function not found: %s %s %s' % (ty, trait, method))
        return self.call_item(it, args, mem if mem is not None else {})


def disc_eq(I, a, b):
    def alts(x):
        if isinstance(x, tuple) and x[0] == 'disc':
            adt = x[1]
            return {(I.defs.discr_value(adt.ty, i) if adt.ty in I.defs.enums else i): g for i, (g, _) in adt.alts.items()}
        if isinstance(x, int):
            return {x: True}
        raise EngineError('discriminant compared with %s' % type(x).__name__)
    A, B = alts(a), alts(b)
    return gor(*[gand(g, B[i]) for i, g in A.items() if i in B])


# ------------------------------------------------------------------------------------------ mutable paths

def get_mpath(I, v, path):
    i, n = 0, len(path)
    while i < n:
        p = path[i]
        k = p[0]
        if v is POISON:
            return POISON
        if isinstance(v, CellState):
            v = v.content
        if k == 'field':
            v = I.field(v, p[1])
        elif k == 'downcast':
            if i + 1 < n and path[i + 1][0] == 'field':
                v = I.variant_field(v, p[1], path[i + 1][1])
                i += 1
            else:
                v = I.variant_view(v, p[1])
        elif k == 'index':
            v = I.index_read(v, p[1])
        elif k == 'box':
            v = v.inner
        else:
            raise EngineError('path element %r' % (p,))
        i += 1
    if isinstance(v, CellState):
        v = v.content
    return v


def set_mpath(I, v, path, newv):
    if not path:
        if isinstance(v, CellState):
            return CellState(newv, v.borrow)
        return newv
    if isinstance(v, CellState):
        return CellState(set_mpath(I, v.content, path, newv), v.borrow)
    p = path[0]
    k = p[0]
    if k == 'field':
        i = p[1]
        if isinstance(v, Adt):
            if len(v.alts) != 1:
                raise EngineError('field write on multi-variant value')
            (idx, (g, fs)), = v.alts.items()
            fs = list(fs)
            fs[i] = set_mpath(I, fs[i], path[1:], newv)
            return Adt(v.ty, {idx: (g, tuple(fs))})
        if isinstance(v, IterV):
            fs = list(v.fields)
            fs[i] = set_mpath(I, fs[i], path[1:], newv)
            return IterV(v.kind, fs)
        if isinstance(v, Closure):
            fs = list(v.caps)
            fs[i] = set_mpath(I, fs[i], path[1:], newv)
            return Closure(v.cid, fs)
        if v is UNINIT or v is MOVED:
            if all(q[0] == 'field' for q in path):
                return newv          # MaybeUninit / ManuallyDrop / MaybeDangling wrappers are transparent
            raise EngineError('field write into uninitialised aggregate')
        raise EngineError('field write on %s' % type(v).__name__)
    if k == 'downcast':
        idx = I.variant_index(v.ty, p[1])
        if len(path) < 2 or path[1][0] != 'field':
            raise EngineError('downcast write without field')
        i = path[1][1]
        alts = dict(v.alts)
        alt = alts.get(idx)
        if alt is None:
            return v
        fs = list(alt[1])
        fs[i] = set_mpath(I, fs[i], path[2:], newv)
        alts[idx] = (alt[0], tuple(fs))
        return Adt(v.ty, alts)
    if k == 'index':
        idx = p[1]
        items = list(I.seq_items(v))
        if isinstance(idx, int):
            items[idx] = set_mpath(I, items[idx], path[1:], newv)
            return Seq(items)
        out = []
        for j, x in enumerate(items):
            out.append(merge(idx == z3.BitVecVal(j, idx.size()), set_mpath(I, x, path[1:], newv), x))
        return Seq(out)
    if k == 'box':
        return BoxV(set_mpath(I, v.inner, path[1:], newv))
    raise EngineError('path element %r' % (p,))
