"""Harness utilities shared by the checks: loading the current tree's MIR, symbolic operands (canonical diagrams of
symbolic truth tables over symbolic ordered ids), oracles (structural equality, semantic evaluation, ordered+reduced),
the solver front end and replay-case extraction."""
import hashlib
import json
import os
import sys
import time
import z3

from . import dump, mirparse, rustdefs
from .interp import Interp, Outcome, CellState
from .models import Models
from .values import *   # noqa

SRC_FILES = ['src/bdd.rs', 'src/parser.rs', 'src/symbols.rs', 'src/set.rs', 'src/truth_table.rs', 'src/bdd_io.rs',
             'src/parser_io.rs', 'src/plot.rs', 'src/lib.rs', 'src/bin/rsbdd.rs', 'random_graph_gen/src/main.rs',
             'n_queens_gen/src/main.rs', 'max_clique_gen/src/main.rs', 'sudoku_gen/src/main.rs']

_loaded = {}


def load(target='lib', config=None, fresh=True):
    """-> Interp over the MIR of /repo's current working tree"""
    key = target
    if key not in _loaded:
        text, info = dump.get_mir(target)
        items = mirparse.parse_items(text)
        if target != 'lib':
            # binaries call into the library: add the library bodies as well
            ltext, _ = dump.get_mir('lib')
            items = mirparse.parse_items(ltext) + items
        # the target's own root file is scanned last, so that its definitions win over equally named ones elsewhere
        own = {'rsbdd': 'src/bin/rsbdd.rs'}.get(target, '%s/src/main.rs' % target)
        files = [f for f in SRC_FILES if f != own] + ([own] if own in SRC_FILES else [])
        defs = rustdefs.Defs(dump.source_root(), files)
        _loaded[key] = (items, defs, info)
    items, defs, info = _loaded[key]
    I = Interp(items, defs, Models(), config)
    I.info = info
    return I


# ------------------------------------------------------------------------------------------------ symbolic operands

class World:
    """k symbolic variable ids x0 < x1 < ... (64-bit), or concrete ids; symbol kind 'named' (NamedSymbol) or 'usize'"""

    def __init__(self, k, kind='named', concrete_ids=None, prefix='x'):
        self.k = k
        self.kind = kind
        self.constraints = []
        if concrete_ids is not None:
            self.atoms = tuple(concrete_ids)
        else:
            self.atoms = tuple(z3.BitVec('%s%d' % (prefix, i), 64) for i in range(k))
            for i in range(k - 1):
                self.constraints.append(z3.ULT(self.atoms[i], self.atoms[i + 1]))
        self.ids = [OrdId(self.atoms, {i: True}) for i in range(k)]
        self.names = ['%s%d' % (prefix, i) for i in range(k)]
        self.syms = [self.symbol(self.ids[i], self.names[i]) for i in range(k)]
        self._canon = {}
        self._leaf = {}
        self.F = mk('BDD', 0, [])
        self.T = mk('BDD', 1, [])
        self.rcF = mk_rc(self.F)
        self.rcT = mk_rc(self.T)

    def symbol(self, idv, name='v'):
        if self.kind == 'usize':
            return idv
        if not getattr(self, 'distinct_names', False):
            name = 'v'
        elif isinstance(idv, OrdId) and idv.atoms is self.atoms:
            # the name follows the atom: a guarded choice among the k names
            nm = None
            for i in sorted(idv.alts):
                nm = self._name(self.names[i]) if nm is None else merge(idv.alts[i], self._name(self.names[i]), nm)
            return mk_struct('NamedSymbol', [mk_rc(nm), idv])
        return mk_struct('NamedSymbol', [mk_rc(self._name(name)), idv])

    def _name(self, name):
        if not hasattr(self, '_names'):
            self._names = {}
        if name not in self._names:
            self._names[name] = Str(name)
        return self._names[name]

    def sym_id(self, s):
        if self.kind == 'usize':
            return s
        return s.alts[0][1][1]

    def tt(self, name):
        return [z3.Bool('%s_%d' % (name, j)) for j in range(1 << self.k)]

    def leaf(self, b):
        """Rc<BDD> leaf for Bool term / python bool b"""
        if b is True or g_true(b):
            return self.rcT
        if b is False or g_false(b):
            return self.rcF
        key = b.get_id()
        r = self._leaf.get(key)
        if r is None:
            r = mk_rc(Adt('BDD', {1: (b, ()), 0: (gnot(b), ())}))
            self._leaf[key] = (r, b)
            return r
        return r[0]

    def canon(self, tt, level=0):
        """reduced ordered diagram (as Rc<BDD> value) of truth table tt (list of 2^(k-level) Bool terms; index bit
        (k-1-i) of the index = value of variable i, i.e. variable `level` is the most significant bit) over
        ids[level:]"""
        key = (level, tuple(t if isinstance(t, bool) else t.get_id() for t in tt))
        r = self._canon.get(key)
        if r is not None:
            return r[0]
        if level == self.k:
            r = self.leaf(tt[0])
        else:
            half = len(tt) // 2
            lo_tt, hi_tt = tt[:half], tt[half:]
            lo = self.canon(lo_tt, level + 1)
            hi = self.canon(hi_tt, level + 1)
            if lo is hi:
                r = lo
            else:
                same = gand(*[beq(a, b) for a, b in zip(lo_tt, hi_tt)])
                node = mk_rc(mk('BDD', 2, [hi, self.syms[level], lo]))
                r = merge(same, lo, node)
        self._canon[key] = (r, tt)
        if r.ghost is None:
            # full-width truth table (over all k atoms) of the sub-diagram: independent of the atoms above `level`
            r.ghost = (self, [tt[j & (len(tt) - 1)] for j in range(1 << self.k)])
        return r

    def tt_of(self, v):
        """ghost truth table (over all k atoms) of a value known to be canonical, else None"""
        if isinstance(v, RcV) and v.ghost is not None and v.ghost[0] is self:
            return v.ghost[1]
        return None

    def var(self, i):
        return mk_rc(mk('BDD', 2, [self.rcT, self.syms[i], self.rcF]))


def beq(a, b):
    if isinstance(a, bool) and isinstance(b, bool):
        return a == b
    if a is b:
        return True
    if isinstance(a, bool):
        return b if a else gnot(b)
    if isinstance(b, bool):
        return a if b else gnot(a)
    if a.get_id() == b.get_id():
        return True
    return a == b


def tt_index(k, assignment):
    """index into a truth table for assignment (list of k python bools), variable 0 most significant"""
    j = 0
    for b in assignment:
        j = (j << 1) | (1 if b else 0)
    return j


def tt_map(k, f, *tts):
    return [f(*[t[j] for t in tts]) for j in range(1 << k)]


# ------------------------------------------------------------------------------------------------ environment

def new_env(I, mem, table=None, check_init=True):
    """BDDEnv value obtained by executing the real `BDDEnv::new()`; the contents of its `nodes` table are then replaced
    by the abstract table (arbitrary contents satisfying the representation invariant).  Any other state a changed
    tree adds to the environment stays as `new()` created it.  Returns (env_value, mem)."""
    outs = I.run('BDDEnv', None, 'new', [], dict(mem))
    rets = [o for o in outs if o.kind == 'ret']
    if len(rets) != 1 or any(o.kind == 'panic' and not g_false(o.guard) for o in outs):
        raise EngineError('BDDEnv::new() did not return a single environment')
    env, mem = rets[0].value, dict(rets[0].mem)
    fields = I.defs.structs.get('BDDEnv')
    if not fields or 'nodes' not in fields:
        raise Unsupported('BDDEnv has no field `nodes`')
    cellv = env.alts[0][1][fields.index('nodes')]
    if not isinstance(cellv, RefCellV):
        raise Unsupported('BDDEnv.nodes is not a RefCell')
    init = mem[cellv.cell].content
    if check_init:
        # establishment of the invariant by new(): both leaves present, each entry's key == *value
        ok = isinstance(init, MapV)
        seen = set()
        if ok:
            for g, kx, vx in init.items:
                if not (g is True and isinstance(kx, Adt) and kx.ty == 'BDD' and len(kx.alts) == 1 and isinstance(vx, RcV)):
                    ok = False
                    break
                (vi, _), = kx.alts.items()
                (wi, _), = vx.inner.alts.items()
                if vi != wi:
                    ok = False
                seen.add(vi)
        if not ok or not {0, 1} <= seen:
            raise EngineError('BDDEnv::new() does not establish the table invariant (leaves present, key == *value)')
    mem[cellv.cell] = CellState(table if table is not None else TableV(), 0)
    I.env_init_table = init
    return env, mem


# ------------------------------------------------------------------------------------------------ oracles on results

class Sem:
    """semantic evaluation / well-formedness of a diagram value under the world's ids"""

    def __init__(self, world):
        self.w = world
        self.memo = {}
        self.keep = []

    def unrc(self, v):
        while isinstance(v, (RcV, SRef, BoxV)):
            v = v.inner if not isinstance(v, SRef) else v.val
        return v

    def eval(self, v, sigma):
        """value (Bool term) of diagram v under assignment sigma: list of k Bool terms/py bools, sigma[i] = value of
        the variable with id ids[i]; a test on an id outside ids evaluates to an unconstrained fresh choice -> we
        require (in wf) that ids are among the world's"""
        v = self.unrc(v)
        key = ('e', id(v), tuple(s if isinstance(s, bool) else s.get_id() for s in sigma))
        r = self.memo.get(key)
        if r is not None:
            return r
        res = False
        for idx, (g, fs) in v.alts.items():
            if idx == 0:
                continue
            if idx == 1:
                res = gor(res, g)
            else:
                t, s, f = fs
                sid = self.w.sym_id(s)
                val = False
                for i in range(self.w.k):
                    val = gor(val, gand(beq_bv(sid, self.w.ids[i]), sigma[i]))
                res = gor(res, gand(g, gite(val, self.eval(t, sigma), self.eval(f, sigma))))
        self.memo[key] = res
        self.keep.append(v)
        return res

    def wf(self, v, lower=None):
        """ordered (ids strictly increase along every path, all ids in the world), reduced (children differ), guards
        of alternatives exclusive+exhaustive is by construction"""
        v = self.unrc(v)
        key = ('w', id(v), None if lower is None else (lower if isinstance(lower, int) else id(lower)))
        r = self.memo.get(key)
        if r is not None:
            return r
        res = True
        if 2 in v.alts:
            g, (t, s, f) = v.alts[2]
            sid = self.w.sym_id(s)
            inworld = gor(*[beq_bv(sid, x) for x in self.w.ids])
            above = True if lower is None else bv_ult(lower, sid)
            ve = Veq()
            diff = gnot(ve.eq(self.unrc(t), self.unrc(f)))
            res = gor(gnot(g), gand(inworld, above, diff, self.wf(t, sid), self.wf(f, sid)))
        self.memo[key] = res
        self.keep.append(v)
        return res

    def support(self, v):
        """list of k Bool terms: id i occurs in v"""
        v = self.unrc(v)
        key = ('s', id(v))
        r = self.memo.get(key)
        if r is not None:
            return r
        res = [False] * self.w.k
        if 2 in v.alts:
            g, (t, s, f) = v.alts[2]
            sid = self.w.sym_id(s)
            st = self.support(t)
            sf = self.support(f)
            res = [gand(g, gor(beq_bv(sid, self.w.ids[i]), st[i], sf[i])) for i in range(self.w.k)]
        self.memo[key] = res
        self.keep.append(v)
        return res


def beq_bv(a, b):
    if isinstance(a, OrdId) and isinstance(b, OrdId) and a.atoms is b.atoms:
        return a.rel(b, lambda i, j: i == j)
    if isinstance(a, OrdId):
        a = a.bv()
    if isinstance(b, OrdId):
        b = b.bv()
    if isinstance(a, int) and isinstance(b, int):
        return a == b
    if isinstance(a, int):
        a = z3.BitVecVal(a, 64)
    if isinstance(b, int):
        b = z3.BitVecVal(b, 64)
    if a.get_id() == b.get_id():
        return True
    return a == b


def bv_ult(a, b):
    if isinstance(a, OrdId) and isinstance(b, OrdId) and a.atoms is b.atoms:
        return a.rel(b, lambda i, j: i < j)
    if isinstance(a, OrdId):
        a = a.bv()
    if isinstance(b, OrdId):
        b = b.bv()
    if isinstance(a, int) and isinstance(b, int):
        return a < b
    if isinstance(a, int):
        a = z3.BitVecVal(a, 64)
    if isinstance(b, int):
        b = z3.BitVecVal(b, 64)
    return z3.ULT(a, b)


def all_assignments(k):
    for j in range(1 << k):
        yield [bool((j >> (k - 1 - i)) & 1) for i in range(k)]


# ------------------------------------------------------------------------------------------------ solving

class Query:
    def __init__(self, name, assumptions, goal_negation, kind='valid', meta=None):
        """kind 'valid': assert assumptions and goal_negation, expect unsat.   kind 'sat': expect sat (witness)"""
        self.name = name
        self.assumptions = [to_bool(a) for a in assumptions]
        self.neg = to_bool(goal_negation)
        self.kind = kind
        self.meta = meta or {}
        self.result = None
        self.time = 0.0
        self.model = None
        self.trivial = False

    def solve(self, timeout_ms=300000, want_model_for=None):
        t0 = time.time()
        if g_false(self.neg):
            self.result = 'unsat'
            self.trivial = True
            self.time = 0.0
            return self
        s = z3.Solver()
        s.set('timeout', timeout_ms)
        for a in self.assumptions:
            s.add(a)
        s.add(self.neg)
        r = s.check()
        self.result = str(r)
        self.time = time.time() - t0
        if r == z3.sat:
            self.model = s.model()
        return self

    def smt2(self):
        s = z3.Solver()
        for a in self.assumptions:
            s.add(a)
        s.add(self.neg)
        return s.to_smt2()


def model_val(m, t, default=None):
    v = m.eval(t, model_completion=True)
    if z3.is_bool(v):
        return z3.is_true(v)
    if z3.is_bv_value(v):
        return v.as_long()
    if z3.is_string_value(v):
        return v.as_string()
    if z3.is_int_value(v):
        return v.as_long()
    return default


def outcome_split(outs):
    """-> (list of ret outcomes, panic_condition term, panic messages)"""
    rets = [o for o in outs if o.kind == 'ret']
    pans = [o for o in outs if o.kind == 'panic']
    pc = gor(*[o.guard for o in pans]) if pans else False
    return rets, pc, [(o.msg, o.guard) for o in pans]


def single_ret(outs):
    rets = [o for o in outs if o.kind == 'ret']
    if len(rets) != 1:
        raise EngineError('expected a single merged return outcome, got %d' % len(rets))
    return rets[0]
