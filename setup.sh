#!/bin/bash
# Build everything the checks need, offline, from files on disk only.  Everything lives under /verif/.cache.
set -e
cd "$(dirname "$0")"
V="$(pwd)"
export CARGO_NET_OFFLINE=true
mkdir -p .cache evidence replays
python3-vt -c "import z3; assert z3.get_version_string()" 
command -v kissat >/dev/null
# replay driver against the current /repo working tree (dev + release)
( cd replay && CARGO_TARGET_DIR=$V/.cache/replay-target cargo build --offline -q && CARGO_TARGET_DIR=$V/.cache/replay-target cargo build --offline -q --release )
# nightly MIR dumps (warms the dependency cache of the private target dir)
python3-vt -c "
import sys, os; sys.path.insert(0, os.getcwd())
from mirsym import dump
for t in ('lib','rsbdd','random_graph_gen'):
    text, info = dump.get_mir(t); print(t, info, len(text))
"
echo setup ok
