"""Unit lists per property (BDD-core properties C02 C03 C04 C05 C07 C20) and the generic main."""
import sys
from runner import *   # noqa
import bddcore

S_BASE = ('and', 'or', 'not', 'implies')
S_CONN = S_BASE + ('ite', 'eq', 'xor', 'nor', 'nand', 'mk_const', 'var')
S_ALL = ALL_SUMMARIES

COMMON_ASSUME = [
    'library models listed under coverage.library_models_used (Rc/Box/& value semantics, RefCell borrow counter, Vec/slice/iterator adaptors over concrete-length sequences, Option/Result combinators, fmt/panic plumbing)',
    'unique table modelled by its representation invariant: a lookup of a non-leaf key may hit or miss (fresh Boolean per lookup), an entry is structurally its key; C13 discharges establishment and preservation',
    'variable ids: k symbolic 64-bit atoms a0<a1<..<a(k-1); comparisons between atoms are decided by their order, any other use of an id falls back to the 64-bit term',
    'contract summaries (rely/guarantee): a call to a BDDEnv operation whose contract "returns the canonical diagram of <function of the operand tables>" is discharged by another unit of the same run is replaced by that contract when all its diagram arguments are known canonical; units marked "full recursion" use no summaries; "induction step" units also summarise the recursive calls of the function under test after checking the arguments are sub-diagrams / shorter lists',
]
COMMON_UNCOVERED = ['more variables / longer lists than the stated bounds', 'diagrams forged with plain constructors that are not canonical',
                    'FxHasher / hashbrown internals (the table is abstract)']


def full(op, k, obl, **kw):
    return U('%s k=%d full recursion' % (op, k), op, k, obligations=obl, **kw)


def ind(op, k, obl, summaries=(), **kw):
    return U('%s k=%d induction step' % (op, k), op, k, obligations=obl, inductive=True, summaries=summaries, **kw)


def byc(op, k, obl, summaries, **kw):
    return U('%s k=%d (callees by contract)' % (op, k), op, k, obligations=obl, summaries=summaries, **kw)


def lemma_units(k, kind_k, obl):
    """contracts that the summaries rely on: and/or/not/implies with the whole recursion executed, plus induction steps"""
    us = []
    obl = tuple(sorted(set(obl) | {'struct', 'panic'}))
    for op in ('and', 'or', 'not', 'implies', 'const', 'var'):
        us.append(full(op, k, obl))
    for op in ('and', 'or', 'not'):
        us.append(ind(op, kind_k, obl))
    return us


def units_for(pid, quick):
    kf = 3 if quick else 4          # full recursion
    ki = 5 if quick else 6          # induction steps
    kc = 4 if quick else 5          # bodies with callees by contract
    to = 280 if quick else 3000
    us = []
    st = []
    if pid == 'C02':
        obl = ('struct', 'wf', 'panic')
        us += lemma_units(kf, ki, obl)
        for op in ('nor', 'nand', 'clean'):
            us.append(full(op, kf, obl))
        for op in ('eq', 'xor', 'ite', 'nor', 'nand'):
            us.append(byc(op, kc, obl, S_BASE))
        for op in ('eq', 'xor', 'ite'):
            us.append(full(op, 2, obl))
        us.append(byc('exists_impl', kf, obl, ('or',)))
        us.append(ind('exists_impl', ki, obl, ('or',)))
        for n in range(0, 4):
            us.append(ind('exists/%d' % n, kc, obl, ('exists_impl',)))
            us.append(byc('all/%d' % n, kc, obl, ('not', 'exists')))
        for op in ('aln', 'amn', 'exn'):
            for n in range(0, 5):
                us.append(ind('cmp_count[%s]/%d' % (op, n), 2 if quick else 3, obl, ('ite', 'mk_const')))
                us.append(byc('%s/%d' % (op, n), 2 if quick else 3, obl, ('cmp_count',)))
        for op in ('count_leq', 'count_lt', 'count_geq', 'count_gt'):
            for a, b in ((0, 2), (1, 1), (2, 1), (2, 2)) + (((3, 2), (1, 3)) if not quick else ()):
                us.append(ind('cmp_count_compare[%s]/%d,%d' % (op, a, b), 2, obl, ('ite', 'aln', 'amn')))
                rec = {'count_leq': 'count_leq_recursive[0]', 'count_lt': 'count_leq_recursive[1]', 'count_geq': 'count_geq_recursive[0]', 'count_gt': 'count_geq_recursive[-1]'}[op]
                us.append(byc('%s/%d,%d' % (rec, a, b), 2, obl, ('cmp_count_compare',)))
                us.append(byc('%s/%d,%d' % (op, a, b), 2, obl, ('count_leq_recursive', 'count_geq_recursive')))
        for a, b in ((0, 0), (1, 2), (2, 2)):
            us.append(byc('count_eq/%d,%d' % (a, b), 2, obl, ('count_leq', 'count_geq', 'and')))
        us.append(byc('model', kf, ('wf', 'panic'), S_CONN))
        us.append(U('retain k=%d full recursion' % kf, 'retain', kf, obligations=('wf', 'panic')))
        st = [('mk_choice skips simplify', 'and', 2, dict(obligations=('struct', 'wf'), witness=False,
                                                          mutate=('mk_choice', 'bdd::BDDEnv::<S>::simplify(copy _1, copy _6)', '<Rc<bdd::BDD<S>> as Clone>::clone(copy _6)'))),
              ('exists_impl keeps the quantified variable', 'exists_impl', 2, dict(obligations=('struct',), witness=False, summaries=('or',),
                                                                                  mutate=('exists_impl', 'switchInt(move _', 'switchInt(copy _')))]
        st = st[:1]
    elif pid == 'C04':
        obl = ('sem', 'struct', 'panic')
        us += lemma_units(kf, ki, ('struct', 'panic'))
        us.append(U('exists_impl k=%d full recursion' % kf, 'exists_impl', kf, obligations=obl))
        us.append(byc('exists_impl', kc, obl, ('or',)))
        us.append(ind('exists_impl', ki, obl, ('or',)))
        for n in range(0, 4):
            us.append(ind('exists/%d' % n, kc, obl, ('exists_impl',)))
            us.append(byc('all/%d' % n, kc, obl, ('not', 'exists')))
        for n in (1, 2, 3):
            # three-element lists with the full recursion at k=4 took 50 min alone and ran into the unit cap beside other
            # work: they stay at k=3 in both tiers (k=4 / 5 for them is covered by the contract and induction units above)
            kk = 3 if (quick or n == 3) else 4
            us.append(U('exists/%d k=%d full recursion' % (n, kk), 'exists/%d' % n, kk, obligations=obl, timeout=to))
            us.append(U('all/%d k=%d full recursion' % (n, kk), 'all/%d' % n, kk, obligations=obl, timeout=to))
        st = [('exists_impl: or -> and', 'exists_impl', 2, dict(obligations=('sem',), witness=False,
                                                                mutate=('exists_impl', 'BDDEnv::<S>::or(', 'BDDEnv::<S>::and(')))]
    elif pid == 'C05':
        obl = ('sem', 'struct', 'panic')
        kk = 2 if quick else 3
        us += lemma_units(kf, ki, ('struct', 'panic'))
        us.append(byc('ite', kc, ('struct', 'panic'), S_BASE))
        for op in ('aln', 'amn', 'exn'):
            for n in range(0, 5 if quick else 6):
                us.append(ind('cmp_count[%s]/%d' % (op, n), kk, obl, ('ite', 'mk_const')))
                us.append(byc('%s/%d' % (op, n), kk, obl, ('cmp_count',)))
            for n in (1, 2):
                us.append(U('%s/%d k=%d full recursion' % (op, n, 1 if n == 2 else 2), '%s/%d' % (op, n), 1 if n == 2 else 2, obligations=obl, timeout=to))
        pairs = ((0, 0), (0, 2), (1, 1), (2, 1), (2, 2), (1, 3), (3, 2)) if quick else ((0, 0), (0, 2), (1, 1), (2, 1), (2, 2), (1, 3), (3, 2), (3, 3), (0, 3), (3, 0))
        for op in ('count_leq', 'count_lt', 'count_geq', 'count_gt'):
            for a, b in pairs:
                us.append(ind('cmp_count_compare[%s]/%d,%d' % (op, a, b), 2, obl, ('ite', 'aln', 'amn')))
                rec = {'count_leq': 'count_leq_recursive[0]', 'count_lt': 'count_leq_recursive[1]', 'count_geq': 'count_geq_recursive[0]', 'count_gt': 'count_geq_recursive[-1]'}[op]
                us.append(byc('%s/%d,%d' % (rec, a, b), 2, obl, ('cmp_count_compare',)))
                us.append(byc('%s/%d,%d' % (op, a, b), 2, obl, ('count_leq_recursive', 'count_geq_recursive')))
        for a, b in pairs:
            us.append(byc('count_eq/%d,%d' % (a, b), 2, obl, ('count_leq', 'count_geq', 'and')))
        st = [('aln comparator <= -> <', 'aln/2', 1, dict(obligations=('sem',), witness=False, summaries=('cmp_count',),
                                                         mutate=('aln::{closure#0}', 'Le(', 'Lt('))),
              ('count_lt starts at 0', 'count_lt/1,1', 1, dict(obligations=('sem',), witness=False, summaries=('cmp_count_compare', 'count_leq_recursive'),
                                                             mutate=('count_lt', 'const 1_i64', 'const 0_i64')))]
    elif pid == 'C07':
        us += lemma_units(kf, ki, ('struct', 'panic'))
        us.append(byc('model', kf, ('wf', 'panic'), S_CONN))
        us.append(byc('model', kc, ('wf', 'panic'), S_CONN))
        us.append(U('model k=2 full recursion', 'model', 2, obligations=('wf', 'panic'), timeout=to))
        us.append(byc('infer', kc, ('panic',), S_CONN))
        us.append(U('infer k=2 full recursion', 'infer', 2, obligations=('panic',), timeout=to))
        st = [('model: prefers a branch whose sub-model is false', 'model', 2, dict(obligations=('panic',), witness=False, summaries=S_CONN,
                                                                                   mutate=('model', '<Rc<bdd::BDD<S>> as PartialEq>::ne(', '<Rc<bdd::BDD<S>> as PartialEq>::eq(')))]
    elif pid == 'C20':
        us.append(U('retain k=%d full recursion' % kf, 'retain', kf, obligations=('wf', 'panic'), timeout=to))
        us.append(U('retain k=%d full recursion' % (kf + 1), 'retain', kf + 1, obligations=('wf', 'panic'), timeout=to))
        st = [('retain: keeps/drops the wrong way round', 'retain', 2, dict(obligations=('panic',), witness=False,
                                                                            mutate=('retain_choice_bottom_up', 'Ne(move _', 'Eq(move _')))]
    else:
        raise KeyError(pid)
    return us, st


VALIDATE_OPS = {
    'C02': ['and', 'or', 'not', 'eq', 'xor', 'ite', 'nor', 'nand', 'exists', 'all', 'aln', 'amn', 'exn', 'count_leq', 'count_gt', 'count_eq', 'model', 'retain', 'clean', 'var'],
    'C03': ['and', 'or', 'not', 'implies', 'eq', 'xor', 'nor', 'nand', 'ite', 'var', 'const'],
    'C04': ['exists', 'all', 'exists_impl'],
    'C05': ['aln', 'amn', 'exn', 'count_leq', 'count_lt', 'count_geq', 'count_gt', 'count_eq'],
    'C07': ['model', 'infer'],
    'C20': ['retain'],
}


def main(pid, extra_units=None, extra_bounds=None, extra_uncovered=None, post=None):
    quick = TIER != 'thorough'
    us, st = units_for(pid, quick)
    if extra_units:
        us += extra_units(quick)
    if pid == 'C20':
        # the main-level units below evaluate formula sketches through the operation contracts: discharge them here too
        have = {repr(u) for u in us}
        us += [u for u in units_for('C02', quick)[0] if repr(u) not in have]
    xj = []
    if pid == 'C02':
        xj.append(('<BDD as PartialEq>::eq on canonical diagrams k=3', bddcore.unit_bdd_eq, (3 if quick else 4, {})))
        xj.append(('<BDD as Hash>::hash on canonical diagrams k=3', bddcore.unit_bdd_hash, (3, {})))
        xj.append(('NamedSymbol: Hash consistent with Eq', bddcore.unit_symbol_hash, ({},)))
    if pid == 'C05':
        # the formula-language clause: `[..] op n` and `[..] op [..]` through the real evaluator, n an unconstrained usize
        import evalcore
        for sh in [('cc', tuple(['L'] * n)) for n in range(0, 4)] + [('cv', tuple(['L'] * a), tuple(['L'] * b)) for a in range(0, 3) for b in range(0, 3)] + [('not', ('cc', ('L', 'L')))]:
            xj.append(('eval %r k=3' % (sh,), evalcore.unit_sketch, (sh, 3, {})))
            if sh[0] == 'cc':
                xj.append(('eval %r k=3 release profile (overflow wraps)' % (sh,), evalcore.unit_sketch, (sh, 3, dict(config=dict(overflow_checks=False)))))
    if pid == 'C07':
        # the CLI clause: `rsbdd -m -t` prints exactly one satisfying row (model, then the printing recursion of the binary)
        import printcore
        for kk in (1, 2, 3):
            xj.append(('model then print_truth_table_recursive k=%d' % kk, printcore.unit_print_model, (kk, {})))
    if pid == 'C20':
        # the same diagram retained twice in one environment with two independent filters (state threaded through)
        xj.append(('history retain ; retain k=2', unit_pair, ('retain', 'retain', 2, {})))
        xj.append(('history retain ; retain k=3', unit_pair, ('retain', 'retain', 3, {})))
        # the CLI clause: `rsbdd -c t|f -t` through the real main (option plumbing, evaluation, printing)
        import maincore
        xj += maincore.jobs_retain(quick)
        xj.append(('<BDD as PartialEq>::eq on canonical diagrams k=3', bddcore.unit_bdd_eq, (3, {})))
    if pid == 'C03':
        pass
    rep = run_property(pid, us, VALIDATE_OPS[pid], st, extra_jobs=xj,
                       bounds=dict({'variables_k': 'full recursion k=%d; induction steps k=%d; bodies with callees by contract k=%d; counting units k=2%s' % (
                           3 if quick else 4, 5 if quick else 6, 4 if quick else 5, '' if quick else '..3'),
                           'operands': 'every Boolean function of k variables per operand (symbolic truth tables): all 2^(2^k) functions, every argument position'},
                           **(extra_bounds or {})),
                       assumptions=COMMON_ASSUME, uncovered=COMMON_UNCOVERED + (extra_uncovered or []))
    if post:
        post(rep, quick)
    sys.exit(rep.finish())
