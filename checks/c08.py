#!/usr/bin/env python3
"""C08 - the parser accepts exactly the grammar and builds the tree it prescribes.

Parser stage: the real MIR of SymbolicBDD::parse_formula (and every parse_* / expect / check below it) is executed on a
token array of length L whose kinds are unknowns over the full alphabet (31 kinds per position; variables over 2 atoms;
the numeric constant a 64-bit unknown); outcomes are kept per concrete cursor position.  The oracle is an independent
reference parser of the documented grammar run on the same symbolic array: both reject, or both accept with
structurally equal trees.
Token stage: the tokenizer's mapping from matched text to token (symbols, keywords, aliases, identifiers, numbers) is
executed from MIR under a contract model of the regex engine (one capture group set per match; the text in the group's
language)."""
import sys
from runner import *   # noqa
import props
import parsecore
from parsecore import unit_parser, judge_parse

PID = 'C08'


def replay_parse(rep, pid, name, cex, keyprefix='parse'):
    case = cex['case']
    line = 'formula %s %s parse' % (case['text'].encode().hex() or '20', ','.join('%s:%d' % (n, i) for n, i in zip(case['names'], case['ids'])))
    verd = {}
    for profile in ('dev', 'release'):
        ans = driver_run([line], profile, timeout=30)[0]
        verd[profile] = judge_parse(case, ans) + (ans,)
    case.update(obligation=cex['obligation'], unit=name, driver_line=line, replay={p: {'violates': v[0], 'what': v[1], 'driver_answer': v[2][:300]} for p, v in verd.items()})
    path = save_replay(pid, case)
    ok = [p for p, v in verd.items() if v[0]]
    if ok:
        d = verd[ok[0]][1]
        role = 'panic' if d.startswith('panic') else ('non-sentence-accepted' if d.startswith('non-sentence') else ('sentence-rejected' if d.startswith('sentence rejected') else 'wrong-tree'))
        # role key: what kind of failure, and after which leading construct
        first = case['tokens'][0][0] if case['tokens'] else 'empty'
        rep.violations.append(('%s:%s:after-%s' % (keyprefix, role, first), '`%s`: %s' % (case['text'], d), path))
        print('CONFIRMED `%s`: %s' % (case['text'], d))
    else:
        rep.inconclusive.append('%s: counterexample `%s` did not reproduce (%s)' % (name, case['text'], verd['dev'][1]))
        print('NOT-REPRODUCED `%s`: %s' % (case['text'], verd['dev'][1]))


def main(pid=PID):
    quick = TIER != 'thorough'
    rep = Report(pid)
    try:
        build_driver('dev')
        build_driver('release')
    except Exception as e:   # noqa
        rep.inconclusive.append('replay driver does not build: %s' % str(e)[-300:])
    jobs, Lmax = parsecore.parser_jobs(quick)
    import tokencore
    jobs += tokencore.jobs(quick)
    import regexcore
    jobs += regexcore.jobs(quick)
    jobs.append(('selftest:binary operators parsed left-associatively', unit_parser, (5, 2, dict(kinds=['Var', 'And', 'Or'], mutate=('parse_sub_formula', 'parser::SymbolicBDD::parse_sub_formula(copy _1)', 'parser::SymbolicBDD::parse_simple_sub_formula(copy _1)')))))
    results = run_units(jobs)
    st = {}
    for name in list(results):
        if name.startswith('selftest:'):
            r = results.pop(name)
            caught = any(q['result'] == 'sat' and q.get('expect') == 'unsat' for q in r.get('queries', []))
            st[name] = 'mutant detected (sat)' if caught else ('not applicable: %s' % r.get('error') if 'pattern not found' in str(r.get('error')) else 'MUTANT NOT DETECTED')
            if st[name] == 'MUTANT NOT DETECTED':
                rep.inconclusive.append(name + ': seeded MIR mutation not detected')
    rep.selftest = st
    rep.absorb(results)
    for name, r in sorted(results.items()):
        if r.get('cex'):
            if r['cex']['case'].get('kind') == 'parse':
                replay_parse(rep, pid, name, r['cex'])
            elif r['cex']['case'].get('kind') == 'regex':
                regexcore.replay_regex(rep, pid, name, r['cex'])
            else:
                tokencore.replay_token(rep, pid, name, r['cex'])
    rep.bounds = {'token_sequence_length': '0..%d tokens + Eof, every kind at every position (31-kind alphabet, 2 variable atoms, 64-bit constant); 8..%d tokens over %d focused sub-alphabets of 7..12 kinds' % (Lmax, 9 if quick else 11, len(parsecore.FOCUS)),
                  'token_text': 'matched text an unknown string of <= 8 characters in the capture group\'s language'}
    rep.assumptions = ['library models (slice iterator, Peekable, Option/Result, Box, Vec push, format!/io::Error as opaque)',
                       'reference grammar in checks/refparser.py (README + property text)',
                       'regex engine modelled by its contract: captures_iter yields matches, each with exactly one named group set whose text is in that group\'s language']
    rep.assumptions.append('regex semantics for the pattern unit (checks/regexcore.py): leftmost-first alternation, greedy/lazy repetition with backtracking, `$`, classes; the iterator resumes at the end of a non-empty match; characters abstracted into %d classes the pattern cannot split' % len(regexcore.ALPHA))
    rep.bounds['pattern_text'] = 'TOKENIZER pattern read from src/parser.rs, executed symbolically on every text of <= %d characters (unknown length) over %d character classes' % (8 if quick else 12, len(regexcore.ALPHA))
    rep.uncovered = ['the regex crate\'s implementation itself (the pattern is executed under the documented leftmost-first semantics, not through the crate\'s code); texts longer than the pattern-unit bound; a second regex or text rewriting before matching leaves the modelled fragment (inconclusive, not passed)',
                     'token sequences longer than the bound', 'random / mutated longer texts']
    return rep


if __name__ == '__main__':
    sys.exit(main().finish())
