#!/usr/bin/env python3
"""Replay a stored counterexample (replays/<id>-<hash>.json) against the real crate built from the current tree."""
import json
import sys
from runner import *   # noqa


def main():
    path = sys.argv[1]
    case = json.load(open(path))
    case['__path__'] = path
    kind = case.get('kind')
    if kind == 'op':
        line = op_line(case)
        rc = 0
        for profile in ('dev', 'release'):
            ans = driver_run([line], profile)[0]
            v, desc = judge_op(case, ans)
            print('%s build: %s -> %s: %s' % (profile, line, 'CONFIRMED' if v else 'NOT-REPRODUCED', desc))
            if v:
                rc = 1
        sys.exit(rc)
    import replay_kinds
    sys.exit(replay_kinds.replay(case))


if __name__ == '__main__':
    main()
