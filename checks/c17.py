#!/usr/bin/env python3
"""C17 - sudoku_gen emits a formula whose models are exactly the puzzle's solutions."""
import random
import sys
import z3
from gencore import *   # noqa
import genlang

PID = 'C17'


def hints_of(r, text):
    """documented reading of the puzzle text: whitespace ignored, cell i (row-major) <- i-th remaining character; a digit
    between 1 and r^2 is a given, everything else a blank"""
    sq = r * r
    chars = [c for c in text if not c.isspace()]
    given = {}
    for i in range(sq * sq):
        if i < len(chars) and chars[i].isdigit() and chars[i] in '0123456789' and 1 <= int(chars[i]) <= sq:
            given[i] = int(chars[i])
    return given


def in_domain(r, text):
    """the property speaks about givens that are digits between 1 and r^2: texts with other ASCII digits are outside"""
    sq = r * r
    chars = [c for c in text if not c.isspace()]
    for c in chars[:sq * sq]:
        if c.isdigit() and not (c in '0123456789' and 1 <= int(c) <= sq):
            return False
    return True


def units_of(r):
    sq = r * r
    rows = [[rr * sq + c for c in range(sq)] for rr in range(sq)]
    cols = [[rr * sq + c for rr in range(sq)] for c in range(sq)]
    boxes = []
    for br in range(r):
        for bc in range(r):
            boxes.append([(br * r + i) * sq + (bc * r + j) for i in range(r) for j in range(r)])
    return rows, cols, boxes


def spec_for(r, text):
    def spec(tree, env):
        sq = r * r
        names = ['_%d_is_%d' % (i, d) for i in range(sq * sq) for d in range(1, sq + 1)]
        problems = []
        used = set(genlang.variables(tree))
        if not used <= set(names):
            problems.append('formula mentions variables that are not cell/digit variables: %s' % sorted(used - set(names))[:5])
        for nm in names:
            env.setdefault(nm, z3.Bool('x_' + nm))
        X = lambda i, d: env['_%d_is_%d' % (i, d)]
        cs = []
        one = lambda vs: z3.PbEq([(v, 1) for v in vs], 1)
        for i in range(sq * sq):
            cs.append(one([X(i, d) for d in range(1, sq + 1)]))
        rows, cols, boxes = units_of(r)
        for unit in rows + cols + boxes:
            for d in range(1, sq + 1):
                cs.append(one([X(i, d) for i in unit]))
        for i, d in hints_of(r, text).items():
            cs.append(X(i, d))
        return z3.And(*cs), names, problems
    return spec


def spec_eval(case):
    r = int(case['args'][1])
    sq = r * r
    text = case['stdin']
    a = case['assignment']
    grid = []
    for i in range(sq * sq):
        ds = [d for d in range(1, sq + 1) if a.get('_%d_is_%d' % (i, d))]
        if len(ds) != 1:
            return False
        grid.append(ds[0])
    rows, cols, boxes = units_of(r)
    for unit in rows + cols + boxes:
        if sorted(grid[i] for i in unit) != list(range(1, sq + 1)):
            return False
    return all(grid[i] == d for i, d in hints_of(r, text).items())


def puzzles(r, quick, rnd):
    sq = r * r
    n = sq * sq
    out = ['', '.' * n, '_' * n]
    if r == 1:
        return ['', '1', '.', ' 1 ', 'x', '1 1', '\n1\n']
    solved = '1234341221434321'
    out += [solved, solved[:5], '12 34\n34 12\n21 43\n43 21\n', '1...............', '.2.............3', '11..............', '1...2...3...4...',
            '1\t2 . .\r\n. . 1 2\n', '1xy.z_-*' + '.' * 8, '....' * 3 + '...4' + '1234', '4321' + '.' * 12, '1' + '·' * 3 + '2' + '.' * 11, '1 2' + '.' * 14,
            '1　2' + '.' * 14, '□' * 2 + '3' + '.' * 13, '1\x0b2' + '.' * 14, '1 2' + '.' * 14, '.' * 15 + '4', '.' * 16 + '1']
    for _ in range(12 if quick else 60):
        s = ''
        for i in range(n):
            s += rnd.choice(['.', '.', '.', solved[i], solved[i], str(rnd.randint(1, sq)), ' .', '\n.'])
        out.append(s)
    return list(dict.fromkeys(out))


def main():
    quick = TIER != 'thorough'
    rnd = random.Random(SEED)
    jobs = []
    for r in (1, 2):
        for pz in puzzles(r, quick, rnd):
            if not in_domain(r, pz):
                continue
            name = 'r=%d puzzle=%r' % (r, pz[:40])
            jobs.append((name, tv_unit, (name, 'sudoku_gen', ['-r', str(r)], pz, ('c17', 'spec_for', (r, pz)), dict(timeout=250, check_real_parser=True))))
    # r = 3: exact model-set equality by SAT over 729 variables for seeded puzzles
    base = '534678912672195348198342567859761423426853791713924856961537284287419635345286179'
    for j in range(2 if quick else 8):
        pz = ''.join(c if rnd.random() < 0.4 else '.' for c in base)
        if j == 1:
            pz = '\n'.join(pz[i:i + 9] for i in range(0, 81, 9))
        name = 'r=3 puzzle #%d' % j
        jobs.append((name, tv_unit, (name, 'sudoku_gen', ['-r', '3'], pz, ('c17', 'spec_for', (3, pz)), dict(timeout=260 if quick else 2500, check_real_parser=False))))
    rep = tv_main(PID, jobs, spec_eval,
                  bounds={'roots': 'r = 1, 2: %d puzzle texts (empty, full, short, over-long, contradictory, blanks of several kinds incl. non-ASCII, whitespace layouts incl. non-ASCII whitespace); r = 3: seeded puzzles, exact equivalence over 729 variables' % (len(jobs)),
                          'assignments': 'all, decided by the solver'},
                  assumptions=['the generator runs concretely per puzzle text; the assignment space is decided symbolically', 'reference front end checks/genlang.py',
                               'specification: every cell exactly one digit; every digit exactly once per row, column and box; givens kept; whitespace ignored; non-digits are blanks'],
                  uncovered=['puzzle texts containing digits outside 1..r^2 (outside the property\'s domain)', 'r >= 4', 'file input / output paths'])
    sys.exit(rep.finish())


if __name__ == '__main__':
    main()
