"""Translation validation of the puzzle-to-formula generators (C15 n_queens_gen, C16 max_clique_gen, C17 sudoku_gen):
the real binary built from the current tree is run on every configuration in the bound; its output text is parsed
by the independent front end (genlang) and must also be accepted by the real parser; the solver then decides, over
ALL assignments of the formula's variables, that the emitted formula and an independently written specification
never disagree.  A disagreement is a concrete assignment; it is re-checked by direct evaluation and, where the real
BDD evaluator can solve the instance, against the real rsbdd evaluator through the replay driver."""
import itertools
import os
import subprocess
import tempfile
import time
import z3

from common import *   # noqa
import genlang


def run_gen(name, args, stdin_text=None, timeout=60):
    exe = build_repo_bin(name)
    try:
        p = subprocess.run([exe] + args, input=stdin_text, capture_output=True, text=True, timeout=timeout)
    except subprocess.TimeoutExpired:
        return None, '', 'timeout'
    return p.returncode, p.stdout, p.stderr


def real_parser_accepts(text):
    ans = driver_run(['formula %s - parse' % (text.encode().hex() or '20')], 'dev', timeout=120)[0]
    return ans.startswith('ok'), ans[:200]


def real_value(text, names, assignment, timeout=120):
    """value of the formula under the assignment according to the real evaluator: conjoin literals, evaluate, and
    read whether the result is the constant false"""
    lits = ' & '.join((n if assignment.get(n) else '-' + n) for n in names)
    t2 = '(%s) & %s' % (strip_comments(text), lits) if names else text
    ans = driver_run(['formula %s - evalconst' % t2.encode().hex()], 'dev', timeout=timeout)[0]
    if ans.startswith('ok'):
        return ('nonfalse' in ans), ans[:120]
    return None, ans[:160]


def strip_comments(text):
    import re
    return re.sub(r'"[^"]*"', ' ', text)


def decide_equiv(name, emitted, spec, extra=(), timeout_s=250):
    """-> query record; sat model = assignment where formula and specification disagree"""
    s = z3.Solver()
    s.set('timeout', int(timeout_s * 1000))
    for e in extra:
        s.add(e)
    s.add(z3.Xor(emitted, spec))
    t0 = time.time()
    r = s.check()
    q = dict(name=name, result=str(r), time=time.time() - t0, backend='z3-' + z3.get_version_string(), size=None, expect='unsat')
    model = None
    if r == z3.sat:
        m = s.model()
        model = {d.name(): z3.is_true(m[d]) for d in m.decls() if z3.is_bool(m[d])}
    return q, model


# ------------------------------------------------------------------------------------------------ generic unit + main

def tv_unit(name, gen, args, stdin_text, spec_fn, opts):
    """run one generator configuration and validate its output; spec_fn(tree, env) -> (spec term, variable names)"""
    res = dict(queries=[], method=None, config=dict(generator=gen, args=args, stdin=(stdin_text or '')[:200]))
    rc, out, err = run_gen(gen, args, stdin_text)
    if rc is None or rc != 0:
        expected_fail = opts.get('may_fail')
        if expected_fail:
            res['sample'] = dict(config=res['config'], outcome='generator refused the configuration (allowed): ' + err[-100:])
            return res
        res['cex'] = dict(obligation='generator runs', case=dict(kind='gen', generator=gen, args=args, stdin=stdin_text, what='generator failed: rc=%s %s' % (rc, err[-200:])))
        res['queries'].append(dict(name='generator produces output', result='sat', expect='unsat', time=0.0, backend='run', size=None))
        return res
    try:
        tree = genlang.parse(out)
    except genlang.ParseError as e:
        res['cex'] = dict(obligation='output is a well-formed formula', case=dict(kind='gen', generator=gen, args=args, stdin=stdin_text, what='not well formed: %s' % e, text=out[:400]))
        res['queries'].append(dict(name='output is a well-formed formula (reference parser)', result='sat', expect='unsat', time=0.0, backend='genlang', size=None))
        return res
    res['queries'].append(dict(name='output is a well-formed formula (reference parser)', result='unsat', expect='unsat', time=0.0, backend='genlang', size=None, trivial=False))
    if opts.get('check_real_parser', True):
        ok, ans = real_parser_accepts(out)
        res['queries'].append(dict(name='output accepted by the real parser', result='unsat' if ok else 'sat', expect='unsat', time=0.0, backend='replay driver', size=None))
        if not ok:
            res['cex'] = dict(obligation='output accepted by the real parser', case=dict(kind='gen', generator=gen, args=args, stdin=stdin_text, what='real parser: ' + ans, text=out[:400]))
            return res
    env = {}
    emitted = genlang.to_z3(tree, env)
    if isinstance(spec_fn, tuple):
        import importlib
        mod = importlib.import_module(spec_fn[0])
        spec_fn = getattr(mod, spec_fn[1])(*spec_fn[2])
    spec, names, problems = spec_fn(tree, env)
    for pmsg in problems:
        res['queries'].append(dict(name=pmsg, result='sat', expect='unsat', time=0.0, backend='check', size=None))
        res['cex'] = dict(obligation=pmsg, case=dict(kind='gen', generator=gen, args=args, stdin=stdin_text, what=pmsg, text=out[:400]))
    if opts.get('direction') == 'sound':
        # only "every model of the emitted formula satisfies the specification" (the converse needs pigeonhole-style
        # reasoning that the solver does not finish at this size)
        q, model = decide_equiv('emitted formula => specification (every model is a solution), for every assignment of the %d variables' % len(names), z3.And(emitted, z3.Not(spec)), z3.BoolVal(False),
                                timeout_s=opts.get('timeout', 250))
    else:
        q, model = decide_equiv('emitted formula <=> specification, for every assignment of the %d variables' % len(names), emitted, spec, timeout_s=opts.get('timeout', 250))
    res['queries'].append(q)
    if q['result'] == 'sat':
        asg = {n: bool(model.get('x_' + n, False)) for n in names}
        res['cex'] = dict(obligation=q['name'], case=dict(kind='gen', generator=gen, args=args, stdin=stdin_text, assignment=asg, text=out, names=names,
                                                          spec_value=None))
    elif q['result'] != 'unsat':
        res['status'] = 'inconclusive'
        res['error'] = 'solver: ' + q['result']
    res['formula_chars'] = len(out)
    res['variables'] = len(names)
    res['sample'] = dict(config=res['config'], formula_chars=len(out), variables=len(names), solver_s=round(q['time'], 3), verdict=q['result'])
    return res


def confirm_gen(rep, pid, name, cex, spec_eval):
    """re-check a disagreement by direct evaluation (independent evaluator) and, when cheap, with the real evaluator"""
    case = cex['case']
    path = save_replay(pid, dict(case, obligation=cex['obligation'], unit=name))
    if 'assignment' not in case:
        rep.violations.append(('gen:%s:%s' % (case['generator'], cex['obligation'].split()[0]), '%s %s: %s' % (case['generator'], ' '.join(case['args']), case.get('what', cex['obligation'])), path))
        print('CONFIRMED %s %s: %s' % (case['generator'], ' '.join(case['args']), case.get('what')))
        return
    rep.extra['disagreements_checked'] = rep.extra.get('disagreements_checked', 0) + 1
    tree = genlang.parse(case['text'])
    fv = genlang.evaluate(tree, case['assignment'])
    sv = spec_eval(case)
    real = None
    if len(case['names']) <= 30:
        real, ans = real_value(case['text'], case['names'], case['assignment'])
    if fv != sv and (real is None or real == fv):
        true_vars = sorted(n for n, b in case['assignment'].items() if b)
        desc = '%s %s%s: under {%s} the emitted formula is %s but the specification says %s%s' % (
            case['generator'], ' '.join(case['args']), (' <<< ' + repr(case['stdin'][:60])) if case.get('stdin') else '', ', '.join(true_vars), fv, sv,
            '' if real is None else ' (real rsbdd evaluator: %s)' % real)
        role = 'accepts-non-solution' if fv else 'rejects-solution'
        rep.violations.append(('gen:%s:%s' % (case['generator'], role), desc, path))
        print('CONFIRMED ' + desc[:300])
    else:
        rep.inconclusive.append('%s: disagreement did not reproduce by direct evaluation (formula %s, spec %s, real %s)' % (name, fv, sv, real))


def tv_main(pid, jobs, spec_eval, bounds, assumptions, uncovered):
    rep = Report(pid, 'translation_validation')
    try:
        build_driver('dev')
    except Exception as e:   # noqa
        rep.inconclusive.append('replay driver does not build: %s' % str(e)[-300:])
    results = run_units(jobs)
    rep.absorb(results)
    rep.samples = [r['sample'] for n, r in sorted(results.items()) if r.get('sample')][:14]
    for name, r in sorted(results.items()):
        if r.get('cex'):
            confirm_gen(rep, pid, name, r['cex'], spec_eval)
    rep.extra['programs'] = len(jobs)
    rep.extra.setdefault('disagreements_checked', 0)
    rep.extra['max_variables'] = max([r.get('variables', 0) for r in results.values()] or [0])
    rep.bounds = bounds
    rep.assumptions = assumptions
    rep.uncovered = uncovered
    return rep
