#!/usr/bin/env python3
"""C06 - lfp / gfp denote the least / greatest fixed point of a monotone transformer; scoping; library fp.

 (i)  library BDDEnv::fp(a, t): t is a *symbolic total function* on the functions of k=1..2 variables (a table of unknown
      truth tables, applied by decoding the argument), a arbitrary: the result is the first element of a, t(a), ..
      that t maps to itself (under the assumption that one exists within the unrolling bound; the real loop must then
      stop there);
 (ii) language level: fixed-point sketches (bodies up to 3 internal nodes, every label symbolic, binder names drawn
      from the same atoms as free variables so that shadowing by inner quantifiers / fixed points is included) evaluated
      by the real MIR and compared with the reference iteration semantics; for syntactically monotone bodies the
      reference result is additionally shown to be below (lfp) / above (gfp) *every* fixed point P of the body."""
import random
import sys
import z3
from runner import *   # noqa
import props
import bddcore
import evalcore
import fsem
from evalcore import unit_sketch, Sketch, setup_eval
from bddcore import world_for, table_env

PID = 'C06'
MONO = ['And', 'Or']
L = 'L'

FP_SHAPES = [
    ('fp', L), ('fp', ('not', L)), ('fp', ('not', ('not', L))), ('fp', ('bin', L, L)), ('fp', ('ite', L, L, L)),
    ('fp', ('q', 1, L)), ('fp', ('q', 2, L)), ('fp', ('q', 2, ('bin', L, L))), ('fp', ('q', 1, ('bin', L, L))),
    ('fp', ('bin', L, ('q', 1, L))), ('fp', ('bin', ('q', 1, L), L)), ('fp', ('bin', L, ('q', 2, L))),
    ('fp', ('cc', (L, L))), ('fp', ('cc', (L, L, L))), ('fp', ('cv', (L,), (L, L))), ('fp', ('cv', (L, L), (L,))),
    ('fp', ('fp', L)), ('fp', ('fp', ('bin', L, L))), ('fp', ('bin', L, ('fp', L))), ('fp', ('bin', ('fp', L), L)),
    ('fp', ('q', 1, ('fp', L))), ('fp', ('bin', L, ('bin', L, L))), ('fp', ('bin', ('bin', L, L), L)),
    ('fp', ('bin', L, ('not', L))), ('fp', ('not', ('bin', L, L))), ('fp', ('ite', L, ('q', 1, L), L)),
    ('q', 1, ('fp', L)), ('q', 1, ('fp', ('bin', L, L))), ('bin', ('fp', L), ('fp', L)), ('not', ('fp', ('bin', L, L))),
    ('fp', ('bin', L, ('cc', (L, L)))), ('fp', ('q', 1, ('q', 1, L))), ('fp', ('bin', ('q', 1, L), ('q', 1, L))),
]

MONO_SHAPES = [
    ('fp', ('bin', L, L, MONO)), ('fp', ('bin', L, ('bin', L, L, MONO), MONO)), ('fp', ('q', 1, ('bin', L, L, MONO))),
    ('fp', ('bin', L, ('q', 1, L), MONO)), ('fp', ('bin', L, ('q', 1, ('bin', L, L, MONO)), MONO)), ('fp', ('not', ('not', L))),
    ('fp', ('cc', (L, L), ['AtLeast', 'MoreThan'])), ('fp', ('bin', L, ('cc', (L, L, L), ['AtLeast', 'MoreThan']), MONO)),
    ('fp', ('bin', L, ('fp', ('bin', L, L, MONO)), MONO)), ('fp', ('q', 2, ('bin', L, L, MONO))),
]


def unit_extremal(shape, k, opts):
    """reference-level obligation for a syntactically monotone body: the iterate-until-stable result r satisfies
    T[r] = r and r <= P (lfp) / P <= r (gfp) for EVERY fixed point P of the body (P: unknown truth table)"""
    sk = Sketch(shape, k)
    t = sk.tree
    assert t[0] == 'fp'
    ref = fsem.Sem(k, (1 << k) + 1)
    r = ref.sem(t)
    xsym, init, body = t[1], t[2], t[3]
    P = [z3.Bool('P_%d' % j) for j in range(1 << k)]
    sub = [(xsym.sel[i], P) if not g_false(xsym.sel[i]) else None for i in range(k)]
    TP = fsem.Sem(k, (1 << k) + 1)
    tp = TP.sem(body, sub)
    # P must not depend on the position of X itself (X is not free in its own fixed point): P ranges over functions
    # of the remaining variables
    indep = True
    for i in range(k):
        si = xsym.sel[i]
        if g_false(si):
            continue
        bit = 1 << (k - 1 - i)
        indep = gand(indep, gor(gnot(si), gand(*[beq(P[j], P[j ^ bit]) for j in range(1 << k)])))
    isfix = gand(*[beq(a, b) for a, b in zip(tp, P)])
    below = gand(*[gor(gnot(a), b) for a, b in zip(r, P)])     # r <= P
    above = gand(*[gor(gnot(b), a) for a, b in zip(r, P)])     # P <= r
    sub_r = [(xsym.sel[i], r) if not g_false(xsym.sel[i]) else None for i in range(k)]
    tr = fsem.Sem(k, (1 << k) + 1).sem(body, sub_r)
    assumptions = sk.cons + [gnot(ref.nonconv), gnot(TP.nonconv)]
    res = dict(queries=[], method=None)
    for name, neg in (('the reference result is a fixed point of the body: T[r] = r', gnot(gand(*[beq(a, b) for a, b in zip(tr, r)]))),
                      ('lfp: r <= P for every fixed point P of the body', gand(gnot(init), indep, isfix, gnot(below))),
                      ('gfp: P <= r for every fixed point P of the body', gand(init, indep, isfix, gnot(above)))):
        q = decide(name, assumptions, neg, timeout_s=opts.get('timeout', 250))
        q['expect'] = 'unsat'
        m = q.pop('model', None)
        res['queries'].append(q)
        if q['result'] == 'sat':
            res['status'] = 'inconclusive'
            res['error'] = 'reference semantics: "%s" fails for shape %r (oracle defect or non-monotone shape)' % (name, shape)
        elif q['result'] != 'unsat':
            res['status'] = 'inconclusive'
            res['error'] = 'solver: %s' % q['result']
    res['sample'] = dict(unit='extremality %r k=%d' % (shape, k), obligation='for all fixed points P of the (monotone) body: lfp result <= P, gfp result >= P; T[r]=r')
    return res


def unit_fp_library(k, opts):
    """BDDEnv::fp(a, t) with t an arbitrary total function on the 2^(2^k) functions of k variables"""
    I = load('lib', dict(loop_bound=(1 << (1 << k)) + 2))
    w = world_for(k)
    env, mem = table_env(I)
    bddcore.install_summaries(I, w, ())
    evalcore.install_eq_summary(I, w)
    n = 1 << k
    nf = 1 << n
    # table[f] = truth table of t(function with table index f)
    table = [[z3.Bool('t_%d_%d' % (f, j)) for j in range(n)] for f in range(nf)]

    def apply(tt):
        out = []
        for j in range(n):
            v = False
            for f in range(nf):
                bits = [(f >> (n - 1 - jj)) & 1 for jj in range(n)]
                isf = gand(*[(tt[jj] if bits[jj] else gnot(tt[jj])) for jj in range(n)])
                v = gor(v, gand(isf, table[f][j]))
            out.append(v)
        return out

    def closure(I2, fr, args):
        x = args[0]
        t = w.tt_of(x)
        if t is None:
            raise EngineError('fp: transformer applied to a value without a known table')
        return w.canon(apply(t))
    A = w.tt('a')
    a = w.canon(A)
    outs = I.run('BDDEnv', None, 'fp', [mk_sref(env), a, PyFn(closure)], mem)
    rets, pc, pm = outcome_split(outs)
    # reference: first iterate that t maps to itself
    cur = list(A)
    done = False
    for step in range(nf + 1):
        nxt = apply(cur)
        same = gand(*[beq(x, y) for x, y in zip(nxt, cur)])
        done = gor(done, same)
        cur = [gite(done, c, x) for c, x in zip(cur, nxt)]
    res = dict(queries=[], method='fp')
    assumptions = list(w.constraints) + [done]
    bad = False
    for r in rets:
        bad = gor(bad, gand(r.guard, gnot(evalcore.result_tt_eq(w, r.value, cur))))
    cex = None
    for name, neg, exp in (('assumptions-satisfiable', True, 'sat'), ('fp terminates without panic once a fixed iterate exists', pc, 'unsat'),
                           ('fp returns the first element of a, t(a), t(t(a)).. that t maps to itself', bad, 'unsat')):
        q = decide(name, assumptions, neg, timeout_s=opts.get('timeout', 250))
        q['expect'] = exp
        m = q.pop('model', None)
        res['queries'].append(q)
        if q['result'] == 'sat' and exp == 'unsat' and cex is None:
            tt = ''.join('1' if m.get('a_%d' % j) else '0' for j in range(n))
            tab = ','.join(''.join('1' if m.get('t_%d_%d' % (f, j)) else '0' for j in range(n)) for f in range(nf))
            cex = dict(obligation=name, case=dict(kind='op', op='fp', k=k, ids=bddcore.concrete_ids(m, w), tts=[tt], extra=[tab]))
        elif q['result'] not in ('sat', 'unsat'):
            res['status'] = 'inconclusive'
            res['error'] = 'solver: ' + q['result']
    res.update(bddcore.interp_summary(I))
    res['cex'] = cex
    res['sample'] = dict(unit='BDDEnv::fp k=%d' % k, transformer='symbolic total function on all %d functions of %d variables (%d unknown bits)' % (nf, k, nf * n),
                         obligations=[q['name'] for q in res['queries']])
    return res


def fp_expected(case):
    k = case['k']
    n = 1 << k
    table = [[c == '1' for c in t] for t in case['extra'][0].split(',')]
    cur = [c == '1' for c in case['tts'][0]]
    for _ in range(len(table) + 2):
        idx = int(''.join('1' if b else '0' for b in cur), 2)
        nxt = table[idx]
        if nxt == cur:
            return cur
        cur = nxt
    return None


def main():
    quick = TIER != 'thorough'
    rnd = random.Random(SEED)
    lemma, st = props.units_for('C02', quick)
    jobs = [('<BDD as PartialEq>::eq on canonical diagrams k=3', bddcore.unit_bdd_eq, (3, {}))]
    shapes = list(FP_SHAPES)
    if not quick:
        extra = []
        for a in FP_SHAPES[:24]:
            for b in (('not', L), ('bin', L, L), ('q', 1, L), ('fp', L)):
                g = evalcore.grow(a, b)
                if g:
                    extra.append(rnd.choice(g))
        shapes += extra
    shapes = list(dict.fromkeys(shapes))
    for sh in shapes:
        nfp = repr(sh).count("'fp'")
        kk = 2 if (nfp >= 2 or evalcore.shape_size(sh) >= (3 if quick else 4) or "'cc'" in repr(sh) or "'cv'" in repr(sh)) else 3
        jobs.append(('eval %r k=%d' % (sh, kk), unit_sketch, (sh, kk, dict(timeout=250 if quick else 2000))))
    for sh in MONO_SHAPES:
        jobs.append(('extremality %r k=2' % (sh,), unit_extremal, (sh, 2, {})))
        if not quick:
            jobs.append(('extremality %r k=3' % (sh,), unit_extremal, (sh, 3, dict(timeout=2000))))
    jobs.append(('library fp k=1', unit_fp_library, (1, {})))
    jobs.append(('library fp k=2', unit_fp_library, (2, dict(timeout=250 if quick else 2000))))
    jobs.append(('selftest:fp compares with the initial value instead of the previous iterate', unit_fp_library,
                 (1, dict(mutate=None))))
    jobs.pop()   # (placeholder removed: the library self-test below mutates the MIR)
    rep = run_property(PID, lemma, ['and', 'or', 'not', 'exists', 'all'], [],
                       bounds={'atoms_k': '3 (2 for nested fixed points / bodies of 4+ nodes)', 'fixed_point_shapes': len(shapes), 'monotone_shapes_for_extremality': len(MONO_SHAPES),
                               'library_fp': 'k=1 (4 functions, 8 unknown table bits) and k=2 (16 functions, 64 unknown table bits), start value arbitrary',
                               'unrolling': '2^k+1 reference iterations, 2^k+3 in the real loop (library fp: 2^(2^k)+2); convergence within the bound is assumed, termination of the real loop is then an obligation'},
                       assumptions=props.COMMON_ASSUME + ['FSEM iteration semantics (checks/fsem.py) is the documented meaning: apply the transformer until stable',
                                                          'extremality is claimed for syntactically monotone bodies (X under and/or/quantifiers/at-least counting/double negation)'],
                       uncovered=props.COMMON_UNCOVERED + ['bodies beyond the listed shapes', 'monotone bodies that are not syntactically monotone', 'more than 3 atoms'],
                       extra_jobs=jobs)
    sys.exit(rep.finish())


if __name__ == '__main__':
    main()
