#!/usr/bin/env python3
"""C16 - max_clique_gen emits a formula whose models are exactly the maximum cliques (all cliques with --all)."""
import itertools
import random
import sys
import z3
from gencore import *   # noqa
import genlang

PID = 'C16'


def graph_of(edges, undirected):
    verts = []
    for a, b in edges:
        for x in (a, b):
            if x not in verts:
                verts.append(x)
    E = set(edges)

    def adj(x, y):
        if x == y:
            return True
        if undirected:
            return (x, y) in E or (y, x) in E
        return (x, y) in E and (y, x) in E
    return verts, adj


def cliques(verts, adj):
    out = []
    for r in range(len(verts) + 1):
        for s in itertools.combinations(verts, r):
            if all(adj(a, b) for a, b in itertools.combinations(s, 2)):
                out.append(frozenset(s))
    return out


def spec_for(edges, undirected, all_):
    def spec(tree, env):
        verts, adj = graph_of(edges, undirected)
        problems = []
        free = set(genlang.free_variables(tree))
        if not free <= set(verts):
            problems.append('free variables of the formula are not vertices: %s' % sorted(free - set(verts)))
        for v in verts:
            env.setdefault(v, z3.Bool('x_' + v))
        cl = cliques(verts, adj)
        best = max(len(c) for c in cl)
        want = [c for c in cl if all_ or len(c) == best]
        terms = []
        for c in want:
            terms.append(z3.And(*[(env[v] if v in c else z3.Not(env[v])) for v in verts]) if verts else z3.BoolVal(True))
        return (z3.Or(*terms) if terms else z3.BoolVal(False)), list(verts), problems
    return spec


def parse_stdin(s):
    return [tuple(l.split(',')) for l in s.strip().split('\n') if l.strip()]


def spec_eval(case):
    edges = parse_stdin(case['stdin'])
    und = '-u' in case['args']
    all_ = '-a' in case['args']
    verts, adj = graph_of(edges, und)
    s = frozenset(v for v in verts if case['assignment'].get(v))
    cl = cliques(verts, adj)
    if s not in cl:
        return False
    return all_ or len(s) == max(len(c) for c in cl)


def configs(quick, rnd):
    names3 = ['a', 'b', 'c']
    pairs = [(x, y) for x in names3 for y in names3]
    out = []
    # structured: every simple directed graph on 2 vertices, plus duplicates / self loops
    base2 = [('a', 'b'), ('b', 'a')]
    for r in range(1, 3):
        for es in itertools.combinations(base2, r):
            out.append(list(es))
    out += [[('a', 'b'), ('a', 'b')], [('a', 'a')], [('a', 'a'), ('a', 'b')], [('a', 'b'), ('b', 'a'), ('a', 'b')]]
    # all simple graphs over 3 vertices given as undirected pairs in one direction, and fully symmetric versions
    und = [('a', 'b'), ('a', 'c'), ('b', 'c')]
    for r in range(1, 4):
        for es in itertools.combinations(und, r):
            out.append(list(es))
            out.append(list(es) + [(y, x) for x, y in es])
    out.append([('b', 'a'), ('c', 'b'), ('a', 'c')])
    out.append([('a', 'b'), ('b', 'a'), ('b', 'c')])
    # seeded random multigraphs over 3 (quick) / up to 5 (thorough) vertices
    for _ in range(30 if quick else 120):
        nv = rnd.choice([3, 3, 4] if quick else [3, 4, 5])
        names = ['a', 'b', 'c', 'd', 'e'][:nv]
        m = rnd.randint(1, 2 * nv)
        out.append([(rnd.choice(names), rnd.choice(names)) for _ in range(m)])
    # vertex names that look like the generator's own helper names
    out.append([('a', 'v_a'), ('v_a', 'a')])
    out.append([('a', 'v_a'), ('v_a', 'b'), ('b', 'a')])
    out.append([('x1', 'x_2'), ("x'", 'x1')])
    # nested collisions with the helper prefix: every 2- and 3-subset of a pool of names that are each other's
    # `v_`-prefixed forms, as a symmetric path (quick: the subsets containing `a`; thorough: all, also as complete graphs)
    pool = ['a', 'v_a', 'v__a', 'v___a', 'b', 'v_b', 'v__b']
    for r in (2, 3):
        for vs in itertools.combinations(pool, r):
            if quick and (vs[0] != 'a' or 'v_a' not in vs):
                continue
            path = [(vs[i], vs[i + 1]) for i in range(len(vs) - 1)]
            out.append(path + [(y, x) for x, y in path])
            if not quick and r == 3:
                comp = [(x, y) for x in vs for y in vs if x != y]
                out.append(comp)
    uniq = []
    for c in out:
        if c not in uniq:
            uniq.append(c)
    return uniq


def main():
    quick = TIER != 'thorough'
    rnd = random.Random(SEED)
    jobs = []
    for es in configs(quick, rnd):
        text = '\n'.join('%s,%s' % e for e in es) + '\n'
        for u in (False, True):
            for a in (False, True):
                args = (['-u'] if u else []) + (['-a'] if a else [])
                name = '%s %s' % (' '.join(args) or '(directed, max)', ';'.join('%s,%s' % e for e in es))
                jobs.append((name, tv_unit, (name, 'max_clique_gen', args, text, ('c16', 'spec_for', (es, u, a)), dict(timeout=200))))
    rep = tv_main(PID, jobs, spec_eval,
                  bounds={'graphs': '%d edge lists (all simple graphs on <= 3 vertices in one-directional and symmetric form, duplicates, self loops, seeded multigraphs on 3..%d vertices, identifier names colliding with the generator\'s helper prefix) x {-u} x {-a}' % (len(jobs) // 4, 4 if quick else 5),
                          'assignments': 'all vertex subsets, decided by the solver'},
                  assumptions=['the generator runs concretely per configuration; the assignment space is decided symbolically', 'reference front end checks/genlang.py',
                               'specification: cliques by adjacency (with -u an edge in either direction connects; without it both directions are needed), maximum by cardinality, --all = all cliques incl. empty and singletons'],
                  uncovered=['graphs beyond the bound', 'vertex names that are not identifiers', 'reading from a file / writing to a file'])
    sys.exit(rep.finish())


if __name__ == '__main__':
    main()
