"""Reference parser of the rsbdd language (from the README grammar and the property text), independent of the crate:
a memoised recursive descent over a token array whose kinds may be symbolic.  Every nonterminal returns
(list of (guard, tree value, next position), error guard); outcomes ending at the same position are merged.

  formula  := sub EOF
  sub      := simple [ binop sub ]                      right associative, no precedence
  simple   := '(' sub ')' | count | false | true | {ref} | var | NOT simple | (exists|forall) vars '#' sub
              | (lfp|gfp) var '#' sub | if sub then sub else sub
  vars     := [ var { ',' var } [','] ]
  count    := list cmp ( list | NUMBER )     list := '[' [ sub { ',' sub } [','] ] ']'     cmp := = | <= | >= | < | >
A text that is not a sentence is rejected (no fail-over)."""
from mirsym.values import *   # noqa

KINDS = ['Var', 'Countable', 'Reference', 'And', 'Or', 'Not', 'Xor', 'Nor', 'Nand', 'Implies', 'ImpliesInv', 'Iff', 'If', 'Then', 'Else', 'Exists',
         'Forall', 'Eq', 'Geq', 'Gt', 'Lt', 'OpenParen', 'CloseParen', 'OpenSquare', 'CloseSquare', 'Comma', 'False', 'True', 'LFP', 'GFP', 'Hash', 'Eof']
BINOP_OF = {'And': 'And', 'Or': 'Or', 'Xor': 'Xor', 'Nor': 'Nor', 'Nand': 'Nand', 'Implies': 'Implies', 'ImpliesInv': 'ImpliesInv', 'Iff': 'Iff'}
CMP_OF = {'Eq': 'Exactly', 'ImpliesInv': 'AtMost', 'Geq': 'AtLeast', 'Lt': 'LessThan', 'Gt': 'MoreThan'}


class RefParser:
    def __init__(self, I, toks):
        """toks: list of dicts {'is': {kind: guard}, 'sym': NamedSymbol value, 'num': int/BV, 'name': Str}; last one is Eof"""
        self.I = I
        self.toks = toks
        self.memo = {}
        self.vi = lambda n: I.defs.variant_index('SymbolicBDD', n)

    def kind(self, p, k):
        if p >= len(self.toks):
            return False
        return self.toks[p]['is'].get(k, False)

    # ---- combinators over outcome lists
    def merge_ok(self, oks):
        by = {}
        for g, v, p in oks:
            if g_false(g):
                continue
            if p in by:
                g0, v0 = by[p]
                by[p] = (gor(g0, g), merge(g0, v0, v))
            else:
                by[p] = (g, v)
        return [(g, v, p) for p, (g, v) in sorted(by.items())]

    def call(self, name, p):
        key = (name, p)
        r = self.memo.get(key)
        if r is None:
            oks, err = getattr(self, name)(p)
            r = (self.merge_ok(oks), err)
            self.memo[key] = r
        return r

    def expect(self, p, k):
        """-> (guard ok, guard err)"""
        g = self.kind(p, k)
        return g, gnot(g)

    def mkbox(self, v):
        return BoxV(v)

    # ---- grammar
    def formula(self, p):
        oks, err = self.call('sub', p)
        out = []
        for g, v, p2 in oks:
            ok, bad = self.expect(p2, 'Eof')
            out.append((gand(g, ok), v, p2 + 1))
            err = gor(err, gand(g, bad))
        return out, err

    def sub(self, p):
        oks, err = self.call('simple', p)
        out = []
        for g, left, p2 in oks:
            isop = False
            for tk, op in BINOP_OF.items():
                gk = self.kind(p2, tk)
                if g_false(gk):
                    continue
                isop = gor(isop, gk)
                roks, rerr = self.call('sub', p2 + 1)
                err = gor(err, gand(g, gk, rerr))
                opv = mk('BinaryOperator', self.I.defs.variant_index('BinaryOperator', op), [])
                for g3, right, p3 in roks:
                    out.append((gand(g, gk, g3), mk('SymbolicBDD', self.vi('BinaryOp'), [opv, self.mkbox(left), self.mkbox(right)]), p3))
            out.append((gand(g, gnot(isop)), left, p2))
        return out, err

    def simple(self, p):
        out = []
        err = False
        handled = False
        T = self.toks[p] if p < len(self.toks) else None
        if T is None:
            return [], True
        # parenthesised
        g = self.kind(p, 'OpenParen')
        if not g_false(g):
            handled = gor(handled, g)
            oks, e = self.call('sub', p + 1)
            err = gor(err, gand(g, e))
            for g2, v, p2 in oks:
                ok, bad = self.expect(p2, 'CloseParen')
                out.append((gand(g, g2, ok), v, p2 + 1))
                err = gor(err, gand(g, g2, bad))
        g = self.kind(p, 'OpenSquare')
        if not g_false(g):
            handled = gor(handled, g)
            oks, e = self.call('count', p)
            err = gor(err, gand(g, e))
            out += [(gand(g, g2), v, p2) for g2, v, p2 in oks]
        for k, vn in (('False', 'False'), ('True', 'True')):
            g = self.kind(p, k)
            if not g_false(g):
                handled = gor(handled, g)
                out.append((g, mk('SymbolicBDD', self.vi(vn), []), p + 1))
        g = self.kind(p, 'Reference')
        if not g_false(g):
            handled = gor(handled, g)
            out.append((g, mk('SymbolicBDD', self.vi('Reference'), [T['name']]), p + 1))
        g = self.kind(p, 'Var')
        if not g_false(g):
            handled = gor(handled, g)
            out.append((g, mk('SymbolicBDD', self.vi('Var'), [T['sym']]), p + 1))
        g = self.kind(p, 'Not')
        if not g_false(g):
            handled = gor(handled, g)
            oks, e = self.call('simple', p + 1)
            err = gor(err, gand(g, e))
            out += [(gand(g, g2), mk('SymbolicBDD', self.vi('Not'), [self.mkbox(v)]), p2) for g2, v, p2 in oks]
        for k, qn in (('Exists', 'Exists'), ('Forall', 'Forall')):
            g = self.kind(p, k)
            if g_false(g):
                continue
            handled = gor(handled, g)
            voks, e = self.call('vars', p + 1)
            err = gor(err, gand(g, e))
            qv = mk('QuantifierType', self.I.defs.variant_index('QuantifierType', qn), [])
            for g2, vs, p2 in voks:
                ok, bad = self.expect(p2, 'Hash')
                err = gor(err, gand(g, g2, bad))
                boks, be = self.call('sub', p2 + 1)
                err = gor(err, gand(g, g2, ok, be))
                for g3, body, p3 in boks:
                    out.append((gand(g, g2, ok, g3), mk('SymbolicBDD', self.vi('Quantifier'), [qv, vs, self.mkbox(body)]), p3))
        for k, init in (('GFP', True), ('LFP', False)):
            g = self.kind(p, k)
            if g_false(g):
                continue
            handled = gor(handled, g)
            isv = self.kind(p + 1, 'Var')
            err = gor(err, gand(g, gnot(isv)))
            ok, bad = self.expect(p + 2, 'Hash')
            err = gor(err, gand(g, isv, bad))
            boks, be = self.call('sub', p + 3)
            err = gor(err, gand(g, isv, ok, be))
            for g3, body, p3 in boks:
                out.append((gand(g, isv, ok, g3), mk('SymbolicBDD', self.vi('FixedPoint'), [self.toks[p + 1]['sym'] if p + 1 < len(self.toks) else POISON, init, self.mkbox(body)]), p3))
        g = self.kind(p, 'If')
        if not g_false(g):
            handled = gor(handled, g)
            coks, e = self.call('sub', p + 1)
            err = gor(err, gand(g, e))
            for g1, c, p1 in coks:
                ok, bad = self.expect(p1, 'Then')
                err = gor(err, gand(g, g1, bad))
                toks_, e2 = self.call('sub', p1 + 1)
                err = gor(err, gand(g, g1, ok, e2))
                for g2, t, p2 in toks_:
                    ok2, bad2 = self.expect(p2, 'Else')
                    err = gor(err, gand(g, g1, ok, g2, bad2))
                    eoks, e3 = self.call('sub', p2 + 1)
                    err = gor(err, gand(g, g1, ok, g2, ok2, e3))
                    for g3, el, p3 in eoks:
                        out.append((gand(g, g1, ok, g2, ok2, g3), mk('SymbolicBDD', self.vi('Ite'), [self.mkbox(c), self.mkbox(t), self.mkbox(el)]), p3))
        err = gor(err, gnot(handled))
        return out, err

    def vars(self, p):
        """variable list up to (not including) '#': -> Seq of symbols"""
        out = []
        err = False
        # states: (guard, items tuple, pos)
        work = [(True, (), p)]
        while work:
            g, items, q = work.pop()
            if len(items) > len(self.toks):
                continue
            ish = self.kind(q, 'Hash')
            if not g_false(ish):
                out.append((gand(g, ish), Seq(items), q))
            g2 = gand(g, gnot(ish))
            if g_false(g2):
                continue
            isv = self.kind(q, 'Var')
            err = gor(err, gand(g2, gnot(isv)))
            g3 = gand(g2, isv)
            if g_false(g3):
                continue
            items2 = items + (self.toks[q]['sym'],)
            isc = self.kind(q + 1, 'Comma')
            # no comma: the list ends here (the caller expects '#')
            out.append((gand(g3, gnot(isc)), Seq(items2), q + 1))
            if not g_false(isc):
                work.append((gand(g3, isc), items2, q + 2))
        # outcomes with different list lengths ending at the same position cannot be merged: keep them apart by
        # making the position key unique per length (callers only use the position value)
        return out, err

    def merge_lists(self, oks):
        return oks

    def flist(self, p):
        """'[' [ sub {',' sub} [','] ] ']' -> Seq of trees"""
        out = []
        err = False
        g0 = self.kind(p, 'OpenSquare')
        err = gor(err, gnot(g0))
        work = [(g0, (), p + 1)]
        while work:
            g, items, q = work.pop()
            if g_false(g) or len(items) > len(self.toks):
                continue
            isc = self.kind(q, 'CloseSquare')
            if not g_false(isc):
                out.append((gand(g, isc), Seq(items), q + 1))
            g2 = gand(g, gnot(isc))
            if g_false(g2):
                continue
            soks, e = self.call('sub', q)
            err = gor(err, gand(g2, e))
            for g3, v, q2 in soks:
                gg = gand(g2, g3)
                comma = self.kind(q2, 'Comma')
                # no comma: must close
                ok, bad = self.expect(q2, 'CloseSquare')
                out.append((gand(gg, gnot(comma), ok), Seq(items + (v,)), q2 + 1))
                err = gor(err, gand(gg, gnot(comma), bad))
                if not g_false(comma):
                    work.append((gand(gg, comma), items + (v,), q2 + 1))
        return out, err

    def count(self, p):
        out = []
        loks, err = self.flist_call(p)
        for g, left, p2 in loks:
            isop = False
            for tk, opn in CMP_OF.items():
                gk = self.kind(p2, tk)
                if g_false(gk):
                    continue
                isop = gor(isop, gk)
                opv = mk('CountableOperator', self.I.defs.variant_index('CountableOperator', opn), [])
                gl = self.kind(p2 + 1, 'OpenSquare')
                if not g_false(gl):
                    roks, rerr = self.flist_call(p2 + 1)
                    err = gor(err, gand(g, gk, gl, rerr))
                    for g3, right, p3 in roks:
                        out.append((gand(g, gk, gl, g3), mk('SymbolicBDD', self.vi('CountableVariable'), [opv, left, right]), p3))
                isn = self.kind(p2 + 1, 'Countable')
                gn = gand(g, gk, gnot(gl))
                if not g_false(gand(gn, isn)):
                    out.append((gand(gn, isn), mk('SymbolicBDD', self.vi('CountableConst'), [opv, left, self.toks[p2 + 1]['num']]), p2 + 2))
                err = gor(err, gand(gn, gnot(isn)))
            err = gor(err, gand(g, gnot(isop)))
        return out, err

    def flist_call(self, p):
        key = ('flist', p)
        r = self.memo.get(key)
        if r is None:
            r = self.flist(p)
            self.memo[key] = r
        return r

    def merge_ok(self, oks):   # noqa: F811  (lists of different lengths must not be merged)
        by = {}
        out = []
        for g, v, p in oks:
            if g_false(g):
                continue
            placed = False
            for i, (g0, v0, p0) in enumerate(out):
                if p0 != p:
                    continue
                try:
                    out[i] = (gor(g0, g), merge(g0, v0, v), p)
                    placed = True
                    break
                except Unmergeable:
                    continue
            if not placed:
                out.append((g, v, p))
        return out


def debug_tree(v):
    """Rust `{:?}` of a concrete SymbolicBDD value, without spaces (as the replay driver prints it)"""
    if isinstance(v, BoxV):
        return debug_tree(v.inner)
    if isinstance(v, RcV):
        return debug_tree(v.inner)
    if isinstance(v, Seq):
        return '[' + ','.join(debug_tree(x) for x in v.items) + ']'
    if isinstance(v, Str):
        return '"%s"' % v.s
    if isinstance(v, bool):
        return 'true' if v else 'false'
    if isinstance(v, int):
        return str(v)
    if isinstance(v, OrdId):
        (i, g), = [(i, g) for i, g in v.alts.items() if g_true(g)]
        a = v.atoms[i]
        return str(a)
    if isinstance(v, Adt):
        live = [(i, fs) for i, (g, fs) in v.alts.items() if g_true(g)]
        if len(live) != 1:
            raise EngineError('debug_tree of a non-concrete value')
        i, fs = live[0]
        if v.ty == 'NamedSymbol':
            return 'NamedSymbol{name:%s,id:%s}' % (debug_tree(fs[0]), debug_tree(fs[1]))
        names = DEFS.enums.get(v.ty)
        name = names[i] if names else v.ty
        if not fs:
            return name
        return '%s(%s)' % (name, ','.join(debug_tree(f) for f in fs))
    raise EngineError('debug_tree of %s' % type(v).__name__)


DEFS = None
