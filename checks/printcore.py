"""Units over the rsbdd binary's printing recursions (real MIR of print_truth_table_recursive / print_true_vars_recursive
from src/bin/rsbdd.rs) and ParsedFormula::to_free_index, with the ParsedFormula produced by the real constructor."""
import z3
from common import *   # noqa
from mirsym.harness import *   # noqa
from mirsym.interp import Outcome, Outs, CellState
import bddcore
from bddcore import world_for, table_env, interp_summary, apply_mir_mutation, concrete_ids, install_summaries, any_symbol
import evalcore
import fsem
from fsem import Choice, LEAF, CNT
import c09

STDOUT = 'stdout'


def all_free_tree(k, reverse=False):
    """[v0, .., v(k-1)] >= 0 : every atom occurs free exactly once (reverse: the text mentions them in descending order,
    so that first-appearance order and variable order differ, as under a custom ordering)"""
    order = list(range(k))[::-1] if reverse else list(range(k))
    leaves = [('leaf', Choice.concrete(LEAF, 'var'), Choice.concrete(list(range(k)), i)) for i in order]
    return ('cc', Choice.concrete(CNT, 'AtLeast'), leaves, 0)


class FakeSketch:
    def __init__(self, tree):
        self.tree = tree
        self.cons = []


def real_constructor(I, w, env, mem, tree, ordering_extra=0):
    """ParsedFormula values produced by the real new_with_env on the tree (tokenizer / parser stubbed)"""
    sk = FakeSketch(tree)
    tvv = evalcore.to_value(I, w, tree)
    toks = c09.token_values(I, w, sk)
    I.hooks[('SymbolicBDD', None, 'tokenize')] = lambda I2, fr, a: mk('Result', 0, [toks])
    I.hooks[('SymbolicBDD', None, 'parse_formula')] = lambda I2, fr, a: mk('Result', 0, [tvv])
    outs = I.run('ParsedFormula', None, 'new_with_env', [mk_rc(env), Opaque('dyn BufRead'), mk('Option', 0, [])], mem)
    res = []
    for o in outs:
        if o.kind == 'panic':
            raise EngineError('constructor panics: ' + str(o.msg))
        v = o.value
        if 0 in v.alts:
            res.append((gand(o.guard, v.alts[0][0]), v.alts[0][1][0], o.mem))
    return res


def install_print_hooks(I):
    def sized_line(I2, fr, a):
        labels = I2.peel_all(a[0], fr)
        leaf = I2.peel_all(a[2], fr)
        log = fr.mem.get(STDOUT, Seq(()))
        m = dict(fr.mem)
        m[STDOUT] = Seq(log.items + (mk_tuple([labels, leaf]),))
        fr.mem = m
        return UNIT
    I.hooks[(None, None, 'print_sized_line')] = sized_line

    def io_print(I2, fr, a, ck):
        from mirsym import models as MM
        text = MM.m_format(I2, fr, a, ck)
        if isinstance(text, Str) and isinstance(text.s, str):
            text = 'LINE:' + text.s          # a python str: lines that differ keep their paths apart instead of merging
        log = fr.mem.get(STDOUT, Seq(()))
        m = dict(fr.mem)
        m[STDOUT] = Seq(log.items + (text,))
        fr.mem = m
        return UNIT
    I.models.table[('io', None, '_print')] = io_print


def entry_matches(entry, s):
    """TruthTableEntry value (True=0, False=1, Any=2) admits the Boolean s"""
    g = lambda i: entry.alts[i][0] if i in entry.alts else False
    return gor(g(2), gand(g(0), s), gand(g(1), gnot(s)))


def unit_print_table(k, opts):
    I = load('rsbdd', dict(opts.get('config') or {}))
    if opts.get('mutate'):
        apply_mir_mutation(I, opts['mutate'])
    w = world_for(k)
    env, mem = table_env(I)
    install_summaries(I, w, evalcore.ALL_CONTRACTS)
    pfs = real_constructor(I, w, env, mem, all_free_tree(k, opts.get('reverse', False)))
    if len(pfs) != 1:
        raise EngineError('constructor returned %d outcomes for a concrete tree' % len(pfs))
    g0, pf, mem = pfs[0]
    install_print_hooks(I)
    TT = w.tt('f')
    root = w.canon(TT)
    flt, fsel, fcons = bddcore.filter_value('flt')
    any_ = mk('TruthTableEntry', 2, [])
    mem = dict(mem)
    mem[STDOUT] = Seq(())
    it = I.by_key.get((None, None, 'print_truth_table_recursive'))
    if it is None:
        raise Unsupported('print_truth_table_recursive not found in the rsbdd binary')
    outs = I.call_item(it, [mk_sref(root), Seq([any_] * k), flt, mk_sref(pf), mk_sref(Seq([5] * (k + 1)))], mem)
    rets, pc, pm = outcome_split(outs)
    sig = [z3.Bool('sg%d' % i) for i in range(k)]
    val = False
    for j, sg in enumerate(all_assignments(k)):
        val = gor(val, gand(TT[j], *[(sig[i] if sg[i] else gnot(sig[i])) for i in range(k)]))
    admitted = gor(fsel[2], gand(fsel[0], val), gand(fsel[1], gnot(val)))
    assumptions = list(w.constraints) + fcons
    res = dict(queries=[], method=None, outcomes=len(rets))
    cex = None
    bad_count = bad_val = False
    for r in rets:
        rows = r.mem[STDOUT].items
        ms = []
        for row in rows:
            labels, leaf = row.alts[0][1]
            m = gand(*[entry_matches(labels.items[i], sig[i]) for i in range(k)])
            ms.append(m)
            isT = leaf.alts[1][0] if 1 in leaf.alts else False
            bad_val = gor(bad_val, gand(r.guard, m, gnot(beq(isT, val))))
        atleast = gor(*ms) if ms else False
        twice = gor(*[gand(ms[i], ms[j]) for i in range(len(ms)) for j in range(i + 1, len(ms))]) if len(ms) > 1 else False
        bad_count = gor(bad_count, gand(r.guard, gor(twice, gnot(beq(atleast, admitted)))))

    def case(model):
        model = model or {}
        tt = ''.join('1' if model.get('f_%d' % j) else '0' for j in range(1 << k))
        return dict(kind='table', k=k, ids=concrete_ids(model, w), tt=tt, filter=['True', 'False', 'Any'][bddcore.sel_index(model, 'flt', 3)], reverse=bool(opts.get('reverse')))

    def ask(name, neg, expect='unsat'):
        nonlocal cex
        q = decide(name, assumptions, neg, timeout_s=opts.get('timeout', 250))
        q['expect'] = expect
        m = q.pop('model', None)
        res['queries'].append(q)
        if q['result'] == 'sat' and expect == 'unsat' and cex is None:
            cex = dict(obligation=name, case=case(m))
        elif q['result'] not in ('sat', 'unsat'):
            res['status'] = 'inconclusive'
            res['error'] = 'solver: ' + q['result']
    ask('assumptions-satisfiable', True, 'sat')
    ask('printing does not panic', pc)
    ask('every total assignment is covered by exactly one row when the filter admits its value and by none otherwise (rows disjoint)', bad_count)
    ask('the result column of the covering row is the value of the diagram', bad_val)
    res.update(interp_summary(I))
    res['cex'] = cex
    res['sample'] = dict(unit='print_truth_table_recursive k=%d' % k, diagram='canonical diagram of an unknown truth table', filter='unknown (True/False/Any)',
                         print_outcomes=len(rets), obligations=[q['name'] for q in res['queries']])
    return res


def unit_print_vars(k, opts):
    """rsbdd -v: print_true_vars_recursive lists exactly the satisfying rows (names listed = True, name* = either,
    absent = False)"""
    I = load('rsbdd')
    if opts.get('mutate'):
        apply_mir_mutation(I, opts['mutate'])
    w = world_for(k)
    env, mem = table_env(I)
    install_summaries(I, w, evalcore.ALL_CONTRACTS)
    pfs = real_constructor(I, w, env, mem, all_free_tree(k))
    g0, pf, mem = pfs[0]
    install_print_hooks(I)
    TT = w.tt('f')
    root = w.canon(TT)
    any_ = mk('TruthTableEntry', 2, [])
    names = ['v%d' % i for i in range(k)]
    headers = Seq([Str(n) for n in names] + [Str('*')])
    mem = dict(mem)
    mem[STDOUT] = Seq(())
    it = I.by_key.get((None, None, 'print_true_vars_recursive'))
    if it is None:
        raise Unsupported('print_true_vars_recursive not found in the rsbdd binary')
    outs = I.call_item(it, [mk_sref(root), Seq([any_] * k), mk_sref(headers), mk_sref(pf)], mem)
    rets, pc, pm = outcome_split(outs)
    sig = [z3.Bool('sg%d' % i) for i in range(k)]
    val = False
    for j, sg in enumerate(all_assignments(k)):
        val = gor(val, gand(TT[j], *[(sig[i] if sg[i] else gnot(sig[i])) for i in range(k)]))
    bad = False
    garbled = False
    for r in rets:
        lines = r.mem[STDOUT].items
        ms = []
        for ln in lines:
            if not isinstance(ln, str) or not ln.endswith(';\n'):
                garbled = gor(garbled, r.guard)
                continue
            body = ln[5:-2]
            items = [x.strip() for x in body.split(',') if x.strip()]
            conds = []
            for i, nm in enumerate(names):
                if nm in items:
                    conds.append(sig[i])
                elif nm + '*' in items:
                    pass
                else:
                    conds.append(gnot(sig[i]))
            ms.append(gand(*conds))
        atleast = gor(*ms) if ms else False
        twice = gor(*[gand(ms[i], ms[j]) for i in range(len(ms)) for j in range(i + 1, len(ms))]) if len(ms) > 1 else False
        bad = gor(bad, gand(r.guard, gor(twice, gnot(beq(atleast, val)))))
    res = dict(queries=[], method=None, outcomes=len(rets))
    cex = None

    def case(model):
        model = model or {}
        tt = ''.join('1' if model.get('f_%d' % j) else '0' for j in range(1 << k))
        return dict(kind='vars', k=k, ids=concrete_ids(model, w), tt=tt)
    for name, neg in (('-v printing does not panic', pc), ('every printed line has the documented shape', garbled),
                      ('-v lists exactly the satisfying assignments, each covered by exactly one line', bad)):
        q = decide(name, list(w.constraints), neg, timeout_s=opts.get('timeout', 250))
        q['expect'] = 'unsat'
        m = q.pop('model', None)
        res['queries'].append(q)
        if q['result'] == 'sat' and cex is None:
            cex = dict(obligation=name, case=case(m))
        elif q['result'] not in ('sat', 'unsat'):
            res['status'] = 'inconclusive'
            res['error'] = 'solver: ' + q['result']
    res.update(interp_summary(I))
    res['cex'] = cex
    res['sample'] = dict(unit='print_true_vars_recursive k=%d' % k, diagram='canonical diagram of an unknown truth table', print_outcomes=len(rets), obligations=[q['name'] for q in res['queries']])
    return res


def judge_vars(case):
    import tempfile, os
    k = case['k']
    names = ['v%d' % i for i in range(k)]
    ids = compress_ids(case['ids'])
    text = dnf_text(case['tt'], names)
    d = tempfile.mkdtemp(dir=tmpdir())
    of = os.path.join(d, 'order.txt')
    open(of, 'w').write(ordering_text(names, ids))
    rc, out, err = run_rsbdd(['-e', text, '-v', '-o', of])
    case['cli'] = dict(args=['-e', text, '-v', '-o', ordering_text(names, ids)], rc=rc, stdout=(out or '')[-800:], stderr=(err or '')[-300:])
    if rc is None:
        return None, 'timeout'
    if rc != 0:
        return ('panicked' in err), 'rsbdd exited %s: %s' % (rc, err[-160:])
    lines = [l for l in out.split('\n') if l.endswith(';')]
    tt = [c == '1' for c in case['tt']]
    # free variables = the ones mentioned in the DNF text
    for j in range(1 << k):
        sg = [bool((j >> (k - 1 - i)) & 1) for i in range(k)]
        cover = 0
        for l in lines:
            items = [x.strip() for x in l[:-1].split(',') if x.strip()]
            ok = True
            for i, nm in enumerate(names):
                if nm not in text:
                    continue
                if nm in items:
                    ok = ok and sg[i]
                elif nm + '*' in items:
                    pass
                else:
                    ok = ok and not sg[i]
            cover += 1 if ok else 0
        if cover != (1 if tt[j] else 0):
            return True, 'assignment %s (value %s) is covered by %d lines of -v output %s' % (dict(zip(names, sg)), tt[j], cover, lines)
    return False, 'agrees'


def unit_free_index(shape, k, opts):
    """to_free_index on the ParsedFormula the real constructor builds for a sketch: position in free_vars, no panic;
    ids are symbolic atoms, i.e. non-contiguous ids (an ordering that lists unused names) are included"""
    I = load('lib')
    if opts.get('mutate'):
        apply_mir_mutation(I, opts['mutate'])
    w = world_for(k)
    env, mem = table_env(I)
    sk = evalcore.Sketch(shape, k)
    pfs = real_constructor(I, w, env, mem, sk.tree)
    free = fsem.free_atoms(sk.tree, k)
    v, sel = any_symbol(w, 'qv')
    isfree = gor(*[gand(sel[i], free[i]) for i in range(k)])
    names = I.defs.structs['ParsedFormula']
    res = dict(queries=[], method=None)
    cex = None
    pc_all = False
    bad = False
    for g, pf, m in pfs:
        outs = I.run('ParsedFormula', None, 'to_free_index', [mk_sref(pf), mk_sref(v)], m)
        rets, pc, pm = outcome_split(outs)
        pc_all = gor(pc_all, gand(g, isfree, pc))
        fv = pf.alts[0][1][names.index('free_vars')]
        for r in rets:
            ok = False
            for p, s in enumerate(fv.items):
                ok = gor(ok, gand(Veq().eq(r.value, p), beq_bv(w.sym_id(s), w.sym_id(v))))
            bad = gor(bad, gand(g, isfree, r.guard, gnot(ok)))
    assumptions = list(w.constraints) + sk.cons

    def ask(name, neg, expect='unsat'):
        nonlocal cex
        q = decide(name, assumptions, neg, timeout_s=opts.get('timeout', 250))
        q['expect'] = expect
        m = q.pop('model', None)
        res['queries'].append(q)
        if q['result'] == 'sat' and expect == 'unsat' and cex is None:
            c = evalcore.formula_case(sk, w, k, m)
            c['kind'] = 'freeindex'
            cex = dict(obligation=name, case=c)
        elif q['result'] not in ('sat', 'unsat'):
            res['status'] = 'inconclusive'
            res['error'] = 'solver: ' + q['result']
    ask('to_free_index does not panic on a free variable (any ids, also non-contiguous)', pc_all)
    ask('to_free_index returns the position of the variable in free_vars', bad)
    res.update(interp_summary(I))
    res['cex'] = cex
    res['sample'] = dict(unit='to_free_index on the constructor\'s result for sketch %r k=%d' % (shape, k), ids='symbolic atoms (any spacing)', obligations=[q['name'] for q in res['queries']])
    return res


def unit_from_str(opts):
    """TruthTableEntry::from_str accepts exactly the documented spellings"""
    I = load('lib')
    s = z3.String('flt_text')
    outs = I.run('TruthTableEntry', 'FromStr', 'from_str', [mk_sref(Str(s))], {})
    rets, pc, pm = outcome_split(outs)
    table = {0: ['true', 'True', 't', 'T', '1'], 1: ['false', 'False', 'f', 'F', '0'], 2: ['any', 'Any', 'a', 'A', '*']}
    exp = {i: z3.Or(*[s == z3.StringVal(x) for x in xs]) for i, xs in table.items()}
    res = dict(queries=[], method=None)
    bad = False
    for r in rets:
        v = r.value
        okg = v.alts[0][0] if 0 in v.alts else False
        bad = gor(bad, gand(r.guard, gnot(beq(okg, z3.Or(*exp.values())))))
        if 0 in v.alts:
            e = v.alts[0][1][0]
            for i in range(3):
                gi = e.alts[i][0] if i in e.alts else False
                bad = gor(bad, gand(r.guard, okg, gnot(beq(gi, exp[i]))))
    for name, neg in (('from_str does not panic', pc), ('from_str accepts exactly the documented spellings and maps them to True / False / Any', bad)):
        q = decide(name, [z3.Length(s) <= 6], neg, timeout_s=120, prefer='z3')
        q['expect'] = 'unsat'
        q.pop('model', None)
        res['queries'].append(q)
        if q['result'] != 'unsat':
            res['status'] = 'inconclusive'
            res['error'] = 'from_str: %s is %s' % (name, q['result'])
    res.update(interp_summary(I))
    res['sample'] = dict(unit='TruthTableEntry::from_str', text='unknown string of <= 6 characters')
    return res


def jobs(quick):
    js = []
    for k in ((1, 2, 3) if quick else (1, 2, 3, 4)):
        js.append(('print_truth_table_recursive k=%d' % k, unit_print_table, (k, {})))
    for k in (2, 3):
        js.append(('print_truth_table_recursive k=%d, variables first mentioned in descending order' % k, unit_print_table, (k, dict(reverse=True))))
    for k in (1, 2):
        js.append(('print_true_vars_recursive (-v) k=%d' % k, unit_print_vars, (k, {})))
    for sh in [('bin', 'L', 'L'), ('q', 1, ('bin', 'L', 'L')), ('cc', ('L', 'L', 'L')), ('fp', ('bin', 'L', 'L'))]:
        js.append(('to_free_index %r k=3' % (sh,), unit_free_index, (sh, 3, {})))
    js.append(('TruthTableEntry::from_str', unit_from_str, ({},)))
    return js


# ------------------------------------------------------------------------------------------------ replay through the real CLI

def dnf_text(tt, names, reverse=False):
    k = len(names)
    terms = []
    for j, b in enumerate(tt):
        if b == '1':
            lits = [(names[i] if (j >> (k - 1 - i)) & 1 else '-' + names[i]) for i in range(k)]
            if reverse:
                lits = lits[::-1]
            terms.append('(' + ' & '.join(lits) + ')' if lits else 'true')
    return ' | '.join(terms) if terms else 'false'


def ordering_text(names, ids):
    """an ordering file that gives names[i] the id ids[i]: ids are positions, so unused filler names pad the gaps
    (only possible for small ids; large ids are first compressed order-preservingly with gaps of one)"""
    out = []
    nxt = 0
    for n, i in zip(names, ids):
        while nxt < i:
            out.append('pad%d' % nxt)
            nxt += 1
        out.append(n)
        nxt += 1
    return ' '.join(out)


def compress_ids(ids):
    """order-preserving small ids that keep 'non-contiguous' gaps (gap of one filler where the original had a gap)"""
    out = []
    cur = 0
    prev = None
    for i in ids:
        if prev is not None:
            cur += 2 if i - prev > 1 else 1
        elif i > 0:
            cur = 1
        out.append(cur)
        prev = i
    return out


def run_rsbdd(args, stdin_text=None, timeout=60):
    exe = build_repo_bin('rsbdd')
    import subprocess
    try:
        p = subprocess.run([exe] + args, input=stdin_text, capture_output=True, text=True, timeout=timeout)
    except subprocess.TimeoutExpired:
        return None, '', 'timeout'
    return p.returncode, p.stdout, p.stderr


def parse_table(stdout):
    lines = [l for l in stdout.split('\n') if l.startswith('|')]
    if len(lines) < 2:
        return None, []
    header = [c.strip() for c in lines[0].strip('|').split('|')]
    rows = []
    for l in lines[2:]:
        rows.append([c.strip() for c in l.strip('|').split('|')])
    return header, rows


def judge_table(case):
    import tempfile, os
    k = case['k']
    names = ['v%d' % i for i in range(k)]
    ids = compress_ids(case['ids'])
    text = dnf_text(case['tt'], names, case.get('reverse', False))
    d = tempfile.mkdtemp(dir=tmpdir())
    of = os.path.join(d, 'order.txt')
    open(of, 'w').write(ordering_text(names, ids))
    rc, out, err = run_rsbdd(['-e', text, '-t', '-f', case['filter'], '-o', of])
    case['cli'] = dict(args=['-e', text, '-t', '-f', case['filter'], '-o', ordering_text(names, ids)], rc=rc, stdout=out[-1500:], stderr=err[-500:])
    if rc is None:
        return None, 'timeout'
    if rc != 0:
        if 'panicked' in err:
            return True, 'panic: ' + err.strip().split('\n')[-2][:160] if len(err.strip().split('\n')) > 1 else err[:160]
        return None, 'rsbdd exited %s: %s' % (rc, err[-160:])
    header, rows = parse_table(out)
    if header is None:
        return True, 'no table printed'
    free = [n for n in header if n != '*']
    # expected free variables: those the function depends on
    tt = [c == '1' for c in case['tt']]
    dep = [any(tt[j] != tt[j ^ (1 << (k - 1 - i))] for j in range(1 << k)) for i in range(k)]
    want_free = [names[i] for i in range(k) if any(True for _ in [0]) and (names[i] in text)]
    for j in range(1 << k):
        sg = {names[i]: bool((j >> (k - 1 - i)) & 1) for i in range(k)}
        val = tt[j]
        cover = []
        for r in rows:
            ok = True
            for n, c in zip(free, r[:-1]):
                if c == 'Any':
                    continue
                if (c == 'True') != sg[n]:
                    ok = False
            if ok:
                cover.append(r)
        admitted = case['filter'] == 'Any' or (case['filter'] == 'True') == val
        if len(cover) != (1 if admitted else 0):
            return True, 'assignment %s (value %s) is covered by %d rows under filter %s' % (sg, val, len(cover), case['filter'])
        if cover and (cover[0][-1] == 'True') != val:
            return True, 'row %s reports %s, the formula is %s' % (cover[0], cover[0][-1], val)
    return False, 'agrees'


def replay_print(rep, pid, name, cex):
    case = cex['case']
    if case['kind'] == 'table':
        v, desc = judge_table(case)
        case.update(obligation=cex['obligation'], unit=name)
        path = save_replay(pid, case)
        if v:
            rep.violations.append(('print:table:%s' % ('panic' if desc.startswith('panic') else 'wrong'), 'rsbdd %s: %s' % (' '.join(case['cli']['args'][:4]), desc), path))
            print('CONFIRMED table %s filter %s: %s' % (case['tt'], case['filter'], desc))
        else:
            rep.inconclusive.append('%s: table counterexample did not reproduce (%s)' % (name, desc))
        return
    if case['kind'] == 'vars':
        v, desc = judge_vars(case)
        case.update(obligation=cex['obligation'], unit=name)
        path = save_replay(pid, case)
        if v:
            rep.violations.append(('print:vars:%s' % ('panic' if 'panicked' in desc else 'wrong'), 'rsbdd -e %r -v: %s' % (case['cli']['args'][1], desc), path))
            print('CONFIRMED -v %s: %s' % (case['tt'], desc))
        else:
            rep.inconclusive.append('%s: -v counterexample did not reproduce (%s)' % (name, desc))
        return
    if case['kind'] == 'freeindex':
        # through the CLI: the formula with an ordering file that reproduces the relative order and the gaps of the ids
        import tempfile, os
        k = case['k']
        ids = compress_ids(case['ids'])
        d = tempfile.mkdtemp(dir=tmpdir())
        of = os.path.join(d, 'order.txt')
        open(of, 'w').write(ordering_text(case['names'], ids))
        rc, out, err = run_rsbdd(['-e', case['text'], '-t', '-o', of])
        case.update(obligation=cex['obligation'], unit=name, cli=dict(args=['-e', case['text'], '-t', '-o', ordering_text(case['names'], ids)], rc=rc, stdout=out[-800:], stderr=err[-400:]))
        path = save_replay(pid, case)
        if rc is not None and rc != 0 and 'panicked' in err:
            msg = [l for l in err.split('\n') if 'panicked' in l or 'index out' in l or 'not a free' in l]
            rep.violations.append(('print:free-index:panic', '`rsbdd -e %r -t -o <%s>` panics: %s' % (case['text'], ordering_text(case['names'], ids), ' '.join(msg)[:200]), path))
            print('CONFIRMED rsbdd -e %r -t with ordering `%s`: %s' % (case['text'], ordering_text(case['names'], ids), ' '.join(msg)[:160]))
        else:
            header, rows = parse_table(out or '')
            tree = fsem.tree_from_json(case['tree'], k)
            fr = fsem.free_atoms(tree, k)
            free = [case['names'][i] for i in range(k) if fr[i]]
            problem = None
            if header is None:
                problem = 'no table printed (rc=%s)' % rc
            elif [h for h in header if h != '*'] != free:
                problem = 'header %s, free variables in variable order %s' % (header, free)
            else:
                ref = fsem.Sem(k, (1 << k) + 1)
                tt = ref.sem(tree)
                if isinstance(ref.nonconv, bool) and not ref.nonconv:
                    for j, sg in enumerate(all_assignments(k)):
                        cover = []
                        for r in rows:
                            okr = True
                            for n, c in zip(free, r[:-1]):
                                i = case['names'].index(n)
                                if c != 'Any' and (c == 'True') != sg[i]:
                                    okr = False
                            if okr:
                                cover.append(r)
                        if len(cover) != 1:
                            problem = 'assignment %s is covered by %d rows' % (dict(zip(case['names'], sg)), len(cover))
                            break
                        if (cover[0][-1] == 'True') != bool(tt[j]):
                            problem = 'row %s reports %s but the formula is %s under %s' % (cover[0], cover[0][-1], bool(tt[j]), dict(zip(case['names'], sg)))
                            break
            if problem:
                rep.violations.append(('print:free-index:wrong', '`rsbdd -e %r -t -o <%s>`: %s' % (case['text'], ordering_text(case['names'], ids), problem), path))
                print('CONFIRMED rsbdd -e %r -t: %s' % (case['text'], problem))
            else:
                rep.inconclusive.append('%s: free-index counterexample did not reproduce through the CLI (rc=%s)' % (name, rc))


def unit_print_model(k, opts):
    """rsbdd -m -t: the diagram returned by the real `model` printed with filter Any yields rows of which exactly one
    has result True, and every assignment it covers satisfies f (f satisfiable)"""
    I = load('rsbdd')
    w = world_for(k)
    env, mem = table_env(I)
    install_summaries(I, w, evalcore.ALL_CONTRACTS)
    pfs = real_constructor(I, w, env, mem, all_free_tree(k))
    g0, pf, mem = pfs[0]
    install_print_hooks(I)
    TT = w.tt('f')
    outs = I.run('BDDEnv', None, 'model', [mk_sref(env), w.canon(TT)], mem)
    rets0, pc0, _ = outcome_split(outs)
    any_ = mk('TruthTableEntry', 2, [])
    it = I.by_key.get((None, None, 'print_truth_table_recursive'))
    sat = gor(*TT)
    sig = [z3.Bool('sg%d' % i) for i in range(k)]
    val = False
    for j, sg in enumerate(all_assignments(k)):
        val = gor(val, gand(TT[j], *[(sig[i] if sg[i] else gnot(sig[i])) for i in range(k)]))
    bad_one = bad_sat = False
    pc_all = pc0
    nout = 0
    for r0 in rets0:
        m2 = dict(r0.mem)
        m2[STDOUT] = Seq(())
        outs = I.call_item(it, [mk_sref(r0.value), Seq([any_] * k), mk('TruthTableEntry', 0, []), mk_sref(pf), mk_sref(Seq([5] * (k + 1)))], m2)
        rets, pc, _ = outcome_split(outs)
        pc_all = gor(pc_all, gand(r0.guard, pc))
        for r in rets:
            nout += 1
            rows = r.mem[STDOUT].items
            g = gand(r0.guard, r.guard)
            bad_one = gor(bad_one, gand(g, sat, len(rows) != 1), gand(g, gnot(sat), len(rows) != 0))
            for row in rows:
                labels, leaf = row.alts[0][1]
                m = gand(*[entry_matches(labels.items[i], sig[i]) for i in range(k)])
                bad_sat = gor(bad_sat, gand(g, m, gnot(val)))
    res = dict(queries=[], method=None, outcomes=nout)
    for name, neg in (('model + printing do not panic', pc_all), ('-m -t -ft prints exactly one row for a satisfiable formula (none otherwise)', bad_one),
                      ('every assignment covered by the printed model row satisfies the formula', bad_sat)):
        q = decide(name, list(w.constraints), neg, timeout_s=opts.get('timeout', 250))
        q['expect'] = 'unsat'
        q.pop('model', None)
        res['queries'].append(q)
        if q['result'] != 'unsat':
            res['status'] = 'inconclusive'
            res['error'] = 'model printing: "%s" is %s' % (name, q['result'])
    res.update(interp_summary(I))
    res['summaries_used'] = I.cfg.get('summaries_used', {})
    res['sample'] = dict(unit='model then print_truth_table_recursive (filter True) k=%d' % k, obligations=[q['name'] for q in res['queries']])
    return res
