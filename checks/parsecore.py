"""Units over the parser (real MIR of SymbolicBDD::parse_* / expect / check) on symbolic token arrays."""
import z3
from common import *   # noqa
from mirsym.harness import *   # noqa
import bddcore
from bddcore import world_for, interp_summary, apply_mir_mutation, concrete_ids, one_hot
import refparser
from refparser import KINDS, RefParser


def make_tokens(I, w, L, kinds=None, prefix='t'):
    """L symbolic tokens followed by Eof: -> (Seq of token values, list of token views, constraints)"""
    kinds = kinds or [k for k in KINDS if k != 'Eof']
    tv = lambda n: I.defs.variant_index('SymbolicBDDToken', n)
    vals, views, cons = [], [], []
    for p in range(L):
        sel, c = one_hot('%s%d' % (prefix, p), len(kinds))
        cons += c
        ssel, c2 = one_hot('%s%dv' % (prefix, p), w.k)
        cons += c2
        sym = w.symbol(OrdId(w.atoms, {i: ssel[i] for i in range(w.k)}))
        num = z3.BitVec('%s%dn' % (prefix, p), 64)
        name = Str('r')
        alts = {}
        isk = {}
        for k, g in zip(kinds, sel):
            isk[k] = g
            fs = (sym,) if k == 'Var' else ((num,) if k == 'Countable' else ((name,) if k == 'Reference' else ()))
            alts[tv(k)] = (g, fs)
        vals.append(Adt('SymbolicBDDToken', alts))
        views.append({'is': isk, 'sym': sym, 'num': num, 'name': name, 'kinds': kinds, 'selname': '%s%d' % (prefix, p), 'symsel': '%s%dv' % (prefix, p), 'numname': '%s%dn' % (prefix, p)})
    vals.append(mk('SymbolicBDDToken', tv('Eof'), []))
    views.append({'is': {'Eof': True}, 'sym': None, 'num': None, 'name': None})
    return Seq(vals), views, cons


TOKEN_TEXT = {'And': '&', 'Or': '|', 'Not': '-', 'Xor': '^', 'Nor': 'nor', 'Nand': 'nand', 'Implies': '=>', 'ImpliesInv': '<=', 'Iff': '<=>', 'If': 'if',
              'Then': 'then', 'Else': 'else', 'Exists': 'exists', 'Forall': 'forall', 'Eq': '=', 'Geq': '>=', 'Gt': '>', 'Lt': '<', 'OpenParen': '(',
              'CloseParen': ')', 'OpenSquare': '[', 'CloseSquare': ']', 'Comma': ',', 'False': 'false', 'True': 'true', 'LFP': 'lfp', 'GFP': 'gfp', 'Hash': '#',
              'Reference': '{r}'}


def concrete_tokens(views, model, k):
    """-> list of (kind, atom index / number)"""
    out = []
    for v in views[:-1]:
        kind = v['kinds'][0]
        for i, kd in enumerate(v['kinds']):
            if model.get('%s_is%d' % (v['selname'], i)):
                kind = kd
        a = 0
        for i in range(k):
            if model.get('%s_is%d' % (v['symsel'], i)):
                a = i
        out.append((kind, a, model.get(v['numname'], 0)))
    return out


def tokens_text(ctoks):
    parts = []
    for kind, a, n in ctoks:
        parts.append('v%d' % a if kind == 'Var' else (str(n) if kind == 'Countable' else TOKEN_TEXT[kind]))
    return ' '.join(parts)


def run_real_parser(I, seq, entry='parse_formula'):
    c = I.new_cell()
    it = IterV('peekable', [IterV('slice', [seq, 0]), mk('PeekState', 0, [])])
    outs = I.run('SymbolicBDD', None, entry, [MRef(c, ())], {c: it})
    return outs


def unit_parser(L, k, opts):
    I = load('lib')
    if opts.get('mutate'):
        apply_mir_mutation(I, opts['mutate'])
    refparser.DEFS = I.defs
    w = world_for(k)
    seq, views, cons = make_tokens(I, w, L, opts.get('kinds'))
    outs = run_real_parser(I, seq)
    rets, pc, pm = outcome_split(outs)
    real_ok = []
    ok_real = False
    for r in rets:
        v = r.value
        if 0 in v.alts and not g_false(v.alts[0][0]):
            g = gand(r.guard, v.alts[0][0])
            real_ok.append((g, v.alts[0][1][0]))
            ok_real = gor(ok_real, g)
    ref = RefParser(I, views)
    oks, err = ref.call('formula', 0)
    ok_ref = gor(*[g for g, t, p in oks]) if oks else False
    ve = Veq(lenient=True)
    tree_mismatch = False
    for gr, tr in real_ok:
        for gs, ts, p in oks:
            both = gand(gr, gs)
            if not g_false(both):
                tree_mismatch = gor(tree_mismatch, gand(both, gnot(ve.eq(tr, ts))))
    assumptions = list(w.constraints) + cons
    res = dict(queries=[], method='parse_formula')
    cex = None

    def case(model):
        ct = concrete_tokens(views, model or {}, k)
        return dict(kind='parse', tokens=[[a, b, c] for a, b, c in ct], text=tokens_text(ct), k=k, ids=concrete_ids(model or {}, w), names=['v%d' % i for i in range(k)])

    def ask(name, neg, expect='unsat'):
        nonlocal cex
        q = decide(name, assumptions, neg, timeout_s=opts.get('timeout', 250))
        q['expect'] = expect
        m = q.pop('model', None)
        res['queries'].append(q)
        if q['result'] == 'sat' and expect == 'unsat' and cex is None:
            cex = dict(obligation=name, case=case(m))
        elif q['result'] not in ('sat', 'unsat'):
            res['status'] = 'inconclusive'
            res['error'] = 'solver: ' + q['result']
    ask('assumptions-satisfiable', True, 'sat')
    ask('the parser does not panic on any token sequence', pc)
    ask('accepted exactly when the token sequence is a sentence of the grammar', gnot(beq(ok_real, ok_ref)))
    ask('the tree built is the one the grammar prescribes', tree_mismatch)
    ask('some sentences of this length exist (reference accepts)', ok_ref, 'sat') if L in (1, 3, 4, 5, 6, 7) else None
    res.update(interp_summary(I))
    res['cex'] = cex
    res['sample'] = dict(unit='parse_formula on %d symbolic tokens + Eof' % L, alphabet='%d token kinds per position (Var over %d atoms, Countable with a 64-bit value, Reference)' % (len(views[0].get('kinds', [])), k),
                         real_outcomes=len(rets), obligations=[q['name'] for q in res['queries']])
    return res


def judge_parse(case, ans, I=None):
    """compare the driver's answer on the token text with the reference parser run concretely"""
    d = parse_driver(ans)
    if d['status'] == 'panic':
        return True, 'panic: ' + ans[6:120]
    I = I or load('lib')
    refparser.DEFS = I.defs
    k = case['k']
    w = World(k, 'named', concrete_ids=case['ids'])
    w.distinct_names = True
    views = []
    for kind, a, n in case['tokens']:
        sym = mk_struct('NamedSymbol', [mk_rc(Str('v%d' % a)), case['ids'][a]])
        views.append({'is': {kind: True}, 'sym': sym, 'num': n, 'name': Str('r')})
    views.append({'is': {'Eof': True}, 'sym': None, 'num': None, 'name': None})
    ref = RefParser(I, views)
    oks, err = ref.call('formula', 0)
    acc = [(g, t) for g, t, p in oks if g_true(g)]
    if d['status'] == 'err':
        if acc:
            return True, 'sentence rejected: ' + ans[:80]
        return False, 'both reject'
    if d['status'] != 'ok':
        return None, 'driver: ' + ans[:100]
    if not acc:
        return True, 'non-sentence accepted as ' + d.get('tree', '?')[:120]
    want = refparser.debug_tree(acc[0][1])
    got = d.get('tree', '')
    if got != want:
        return True, 'parsed as %s, grammar prescribes %s' % (got[:150], want[:150])
    return False, 'agrees'


FOCUS = {
    'if-then-else': ['If', 'Then', 'Else', 'Var', 'And', 'Not', 'True'],
    'quantifiers': ['Exists', 'Forall', 'Var', 'Comma', 'Hash', 'And', 'Not'],
    'counting': ['OpenSquare', 'CloseSquare', 'Var', 'Comma', 'Eq', 'ImpliesInv', 'Lt', 'Countable', 'And'],
    'fixed points': ['LFP', 'GFP', 'Var', 'Hash', 'Or', 'Not', 'Exists'],
    'parentheses and negation': ['OpenParen', 'CloseParen', 'Var', 'And', 'Implies', 'Not', 'False'],
    'operators': ['Var', 'And', 'Or', 'Xor', 'Nor', 'Nand', 'Implies', 'ImpliesInv', 'Iff', 'Not', 'OpenParen', 'CloseParen'],
    'mixed binders': ['If', 'Then', 'Else', 'Exists', 'Hash', 'LFP', 'Var', 'And', 'Comma'],
}


def parser_jobs(quick):
    jobs = []
    Lmax = 6 if quick else 8
    for L in range(0, Lmax + 1):
        jobs.append(('parse_formula on %d symbolic tokens (full alphabet)' % L, unit_parser, (L, 2, dict(timeout=250 if quick else 3000))))
    for name, kinds in FOCUS.items():
        for L in ((8, 9) if quick else (8, 9, 10, 11)):
            jobs.append(('parse_formula on %d symbolic tokens (%s: %d kinds)' % (L, name, len(kinds)), unit_parser, (L, 2, dict(kinds=kinds, timeout=250 if quick else 3000))))
    return jobs, Lmax
