"""Property-level driver for checks built from BDD-core op units: run units in parallel, replay counterexamples on
the real crate (dev and release builds), translator validation (MIRSYM run concretely vs. the real crate), self-test
(a mutated MIR must be caught), evidence and exit code."""
import random
import sys
import re
import time

from common import *   # noqa
import bddcore
from bddcore import *  # noqa


ALL_SUMMARIES = ('and', 'or', 'not', 'implies', 'ite', 'eq', 'xor', 'nor', 'nand', 'mk_const', 'var', 'exists_impl', 'exists', 'all',
                 'aln', 'amn', 'exn', 'cmp_count', 'cmp_count_compare', 'count_leq_recursive', 'count_geq_recursive', 'count_leq',
                 'count_lt', 'count_geq', 'count_gt', 'count_eq')
BASE_SUMMARIES = ('and', 'or', 'not', 'implies', 'ite')


def U(name, spec, k, **opts):
    return (name, spec, k, opts)


def serialise(v):
    """concrete diagram value -> the driver's notation; None when the value is not concrete"""
    v = unrc(v)
    live = [(i, fs) for i, (g, fs) in v.alts.items() if not g_false(g)]
    if len(live) != 1 or not g_true(v.alts[live[0][0]][0]):
        # guards may be symbolic only through hit variables with identical alternatives; not expected
        return None
    i, fs = live[0]
    if i == 0:
        return 'F'
    if i == 1:
        return 'T'
    t, s, f = fs
    sid = s.alts[0][1][1] if isinstance(s, Adt) else s
    if isinstance(sid, OrdId):
        (j, g), = sid.alts.items()
        sid = sid.atoms[j]
    a, b = serialise(t), serialise(f)
    if a is None or b is None:
        return None
    return '(%s_%s_%s)' % (sid, a, b)


def concrete_op_result(case, config=None):
    """run MIRSYM on a concrete case -> serialised result / 'panic' / tuple for infer"""
    I = load('lib', config)
    op = case['op']
    ex = case.get('extra', [])
    ids0 = case['ids']
    # the world contains every id the case mentions (operand variables and extra symbols)
    ids = set(ids0)
    if op in ('var', 'exists', 'all', 'exists_impl', 'infer') and ex and ex[0] != '-':
        ids |= {int(x) for x in ex[0].split(',')}
    ids = sorted(ids)
    k = len(ids)
    w = World(k, 'named', concrete_ids=ids)
    env, mem = new_env(I, {})

    def extend(t):
        out = []
        for j in range(1 << k):
            jj = 0
            for i0, v in enumerate(ids0):
                jj = (jj << 1) | ((j >> (k - 1 - ids.index(v))) & 1)
            out.append(t[jj])
        return out
    tts = [extend(py_tt(t)) for t in case['tts']]
    dia = [w.canon(t) for t in tts]

    def symof(idv):
        if idv in ids:
            return w.syms[ids.index(idv)]
        return w.symbol(idv)
    if op in BINOPS or op in ('not', 'ite', 'model', 'clean'):
        if op == 'clean':
            I.cfg['table_mode'] = 'hit'
        method, args = op, dia
    elif op == 'var':
        method, args = 'var', [symof(int(ex[0]))]
    elif op == 'const':
        method, args = 'mk_const', [ex[0] == '1']
    elif op in ('exists', 'all'):
        vs = [] if (not ex or ex[0] == '-') else [symof(int(x)) for x in ex[0].split(',')]
        method, args = op, [Seq(vs), dia[0]]
    elif op == 'exists_impl':
        method, args = op, [mk_sref(symof(int(ex[0]))), dia[0]]
    elif op in ('aln', 'amn', 'exn'):
        method, args = op, [mk_sref(Seq(dia)), int(ex[0])]
    elif op.startswith('count_'):
        na = int(ex[0])
        method, args = op, [mk_sref(Seq(dia[:na])), mk_sref(Seq(dia[na:]))]
    elif op == 'retain':
        method, args = 'retain_choice_bottom_up', [dia[0], mk('TruthTableEntry', ['True', 'False', 'Any'].index(ex[0]))]
    elif op == 'infer':
        method, args = 'infer', [dia[0], symof(int(ex[0]))]
    else:
        return None
    outs = I.run('BDDEnv', None, method, [mk_sref(env)] + args, mem)
    rets, pc, pm = outcome_split(outs)
    if g_true(pc):
        return 'panic'
    if not g_false(pc) or len(rets) != 1:
        return None
    rv = rets[0].value
    if op == 'infer':
        a, b = rv.alts[0][1]
        return 'infer %s %s' % (str(bool(a)).lower(), str(bool(b)).lower()) if isinstance(a, bool) and isinstance(b, bool) else None
    return serialise(rv)


def random_case(rnd, op, kmax=3):
    k = rnd.randint(1, kmax)
    ids = sorted(rnd.sample(range(0, 40), k))
    def tt():
        return ''.join(rnd.choice('01') for _ in range(1 << k))
    if op in BINOPS:
        return dict(kind='op', op=op, k=k, ids=ids, tts=[tt(), tt()], extra=[])
    if op in ('not', 'model', 'clean'):
        return dict(kind='op', op=op, k=k, ids=ids, tts=[tt()], extra=[])
    if op == 'ite':
        return dict(kind='op', op=op, k=k, ids=ids, tts=[tt(), tt(), tt()], extra=[])
    if op == 'var':
        return dict(kind='op', op=op, k=k, ids=ids, tts=[], extra=[str(rnd.choice(ids))])
    if op == 'const':
        return dict(kind='op', op=op, k=k, ids=ids, tts=[], extra=[rnd.choice('01')])
    if op in ('exists', 'all'):
        n = rnd.randint(0, 3)
        vs = [rnd.choice(ids + [rnd.randint(0, 45)]) for _ in range(n)]
        return dict(kind='op', op=op, k=k, ids=ids, tts=[tt()], extra=[','.join(map(str, vs)) or '-'])
    if op == 'exists_impl':
        return dict(kind='op', op=op, k=k, ids=ids, tts=[tt()], extra=[str(rnd.choice(ids + [rnd.randint(0, 45)]))])
    if op in ('aln', 'amn', 'exn'):
        n = rnd.randint(0, 3)
        return dict(kind='op', op=op, k=k, ids=ids, tts=[tt() for _ in range(n)], extra=[str(rnd.randint(-2, 4))])
    if op.startswith('count_'):
        na, nb = rnd.randint(0, 2), rnd.randint(0, 2)
        return dict(kind='op', op=op, k=k, ids=ids, tts=[tt() for _ in range(na + nb)], extra=[str(na)])
    if op == 'retain':
        return dict(kind='op', op=op, k=k, ids=ids, tts=[tt()], extra=[rnd.choice(['True', 'False', 'Any'])])
    if op == 'infer':
        # a random cube
        bits = []
        lit = [rnd.choice([None, True, False]) for _ in range(k)]
        for j in range(1 << k):
            bits.append('1' if all(l is None or l == bool((j >> (k - 1 - i)) & 1) for i, l in enumerate(lit)) else '0')
        return dict(kind='op', op=op, k=k, ids=ids, tts=[''.join(bits)], extra=[str(rnd.choice(ids))])
    raise KeyError(op)


def validate_translator(rep, ops, n=24):
    """MIRSYM executed concretely on seeded random cases must agree node-for-node with the real compiled crate"""
    rnd = random.Random(SEED * 7919 + 13)
    cases = []
    for i in range(n):
        cases.append(random_case(rnd, ops[i % len(ops)]))
    answers = driver_run([op_line(c) for c in cases])
    bad = []
    ok = 0
    for c, a in zip(cases, answers):
        try:
            mine = concrete_op_result(c)
        except (EngineError, Unsupported) as e:
            bad.append('%s: engine error %s' % (op_line(c), e))
            continue
        d = parse_driver(a)
        if d['status'] == 'panic':
            real = 'panic'
        elif c['op'] == 'infer':
            real = ' '.join(d.get('pos', []))
        else:
            real = d['pos'][0] if d.get('pos') else a
        if mine is None:
            bad.append('%s: symbolic executor returned a non-concrete value' % op_line(c))
        elif mine != real:
            bad.append('%s: MIRSYM %s vs real %s' % (op_line(c), mine, real))
        else:
            ok += 1
    rep.validated += ok
    rep.extra.setdefault('translator_validation', {})['ops'] = {'cases': len(cases), 'agree': ok, 'mismatches': bad[:5]}
    return bad


def replay_cex(rep, pid, unit_name, cex):
    """replay a solver counterexample on the real crate; returns True when handled (confirmed or not)"""
    case = cex['case']
    line = op_line(case)
    verdicts = {}
    for profile in ('dev', 'release'):
        try:
            ans = driver_run([line], profile)[0]
        except Exception as e:   # noqa
            ans = 'error %s' % e
        v, desc = judge_op(case, ans)
        verdicts[profile] = (v, desc, ans)
    if not any(v[0] is True for v in verdicts.values()):
        # second attempt: the same operands as diagrams that this environment does not own (built with the public
        # constructors, as diagrams from another environment or from BDD::from are)
        line2 = line.replace('op ', 'rawop ', 1)
        ans = driver_run([line2], 'dev')[0]
        v, desc = judge_op(case, ans)
        if v is True:
            line = line2
            verdicts = {'dev': (v, desc + ' [operands not owned by this environment]', ans)}
    case['replay'] = {p: {'violates': v[0], 'what': v[1], 'driver_answer': v[2]} for p, v in verdicts.items()}
    case['obligation'] = cex['obligation']
    case['unit'] = unit_name
    case['driver_line'] = line
    path = save_replay(pid, case)
    confirmed = [p for p, v in verdicts.items() if v[0] is True]
    if confirmed:
        v = verdicts[confirmed[0]]
        key = 'op:%s:%s' % (case['op'], 'panic' if v[1].startswith('panic') else 'wrong-result')
        rep.violations.append((key, '%s on `%s` (%s build): %s' % (cex['obligation'], line, '+'.join(confirmed), v[1]), path))
        print('CONFIRMED %s: %s' % (line, v[1]))
    else:
        rep.inconclusive.append('%s: counterexample of "%s" did not reproduce on the real crate (%s): encoding error' % (
            unit_name, cex['obligation'], verdicts['dev'][1]))
        print('NOT-REPRODUCED %s: %s' % (line, verdicts['dev'][1]))
    return True


def unit_pair(spec1, spec2, k, opts):
    """op1(..) ; op2(..) in one environment, operands drawn from the same symbolic truth tables"""
    I = load('lib', dict(loop_bound=opts.get('loop_bound', 8)))
    w = world_for(k)
    env, mem = table_env(I)
    b1 = SPECS[spec1](I, w, k, {})
    outs1 = I.run('BDDEnv', None, b1['method'], [mk_sref(env)] + b1['args'], mem)
    rets1, pc1, _ = outcome_split(outs1)
    res = dict(queries=[], method=None)
    assumptions = list(w.constraints) + list(b1.get('assume', []))
    cex = None
    for r1 in rets1:
        I2 = I
        b2 = SPECS[spec2](I2, w, k, {'sfx': '_2'})
        assumptions2 = assumptions + list(b2.get('assume', [])) + list(w.constraints)
        outs2 = I2.run('BDDEnv', None, b2['method'], [mk_sref(env)] + b2['args'], r1.mem)
        rets2, pc2, _ = outcome_split(outs2)
        live = gand(r1.guard, gnot(b1.get('allowed_panic', False)), gnot(b2.get('allowed_panic', False)))
        q = decide('no panic in the second operation', assumptions2, gand(live, pc2), timeout_s=opts.get('timeout', 250))
        q['expect'] = 'unsat'
        m = q.pop('model', None)
        res['queries'].append(q)
        if q['result'] == 'sat' and cex is None:
            # prefer a counterexample whose operands are constant functions (what a caller holds then keeps nothing
            # but leaves alive: the situation in which table clean-ups go wrong); fall back to the first model
            simple = []
            groups = {}
            for key in (m or {}):
                mm = re.match(r'^(.*)_(\d+)$', key)
                if mm and isinstance(m[key], bool):
                    groups.setdefault(mm.group(1), []).append(key)
            for gname, keys in groups.items():
                if len(keys) == (1 << k):
                    simple += [z3.Bool(keys[0]) == z3.Bool(x) for x in keys[1:]]
            if simple:
                q2 = decide('no panic in the second operation (constant operands)', assumptions2 + simple, gand(live, pc2), timeout_s=opts.get('timeout', 250))
                if q2['result'] == 'sat':
                    m = q2.get('model') or m
            cex = dict(obligation='no panic in the second operation', spec=spec2, k=k, case=dict(kind='pair', first=b1['case'](m), second=b2['case'](m)))
        for r2 in rets2:
            negs = []
            if b2.get('expected') is not None:
                negs.append(('second result == canonical diagram of its specification', gnot(Veq().eq(r2.value, w.canon(b2['expected'])))))
            for nm, ng in b2.get('extra', lambda rv: [])(r2.value):
                negs.append(('second result: ' + nm, ng))
            for nm, ng in negs:
                q = decide(nm, assumptions2, gand(live, r2.guard, ng), timeout_s=opts.get('timeout', 250))
                q['expect'] = 'unsat'
                m = q.pop('model', None)
                res['queries'].append(q)
                if q['result'] == 'sat' and cex is None:
                    cex = dict(obligation=nm, spec=spec2, k=k, case=dict(kind='pair', first=b1['case'](m), second=b2['case'](m)))
                elif q['result'] not in ('sat', 'unsat'):
                    res['status'] = 'inconclusive'
                    res['error'] = 'solver: ' + q['result']
    res.update(interp_summary(I))
    res['cex'] = cex
    res['sample'] = dict(unit='history %s ; %s k=%d' % (spec1, spec2, k), obligation='second result is the canonical diagram of its specification (same environment, state threaded)')
    return res


def pair_lines(case):
    return [op_line(case['first']), op_line(case['second'])]



def replay_pair(rep, pid, name, cex):
    case = cex['case']
    lines = pair_lines(case)
    line = 'seq ' + ' ;; '.join(lines)
    verdicts = {}
    for profile in ('dev', 'release'):
        ans = driver_run([line], profile)[0]
        verdicts[profile] = judge_op(case['second'], ans) + (ans,)
    case['obligation'] = cex['obligation']
    case['driver_line'] = line
    case['replay'] = {p: {'violates': v[0], 'what': v[1], 'driver_answer': v[2]} for p, v in verdicts.items()}
    path = save_replay(pid, case)
    ok = [p for p, v in verdicts.items() if v[0]]
    if ok:
        desc = verdicts[ok[0]][1]
        rep.violations.append(('history:%s' % case['second']['op'], 'after `%s`, `%s` returns a wrong result (%s build): %s' % (lines[0], lines[1], '+'.join(ok), desc), path))
        print('CONFIRMED %s: %s' % (line, desc))
    else:
        rep.inconclusive.append('%s: history counterexample did not reproduce (%s)' % (name, verdicts['dev'][1]))
        print('NOT-REPRODUCED %s: %s' % (line, verdicts['dev'][1]))


def route_replay(rep, pid, name, cex):
    """replay one counterexample on the real code, by the kind of its case"""
    if cex.get('sharing'):
        import c13
        c13.replay_sharing(rep, pid, name, cex)
    elif cex['case'].get('kind') == 'pair':
        replay_pair(rep, pid, name, cex)
    elif cex['case'].get('kind') == 'hash2env':
        case = cex['case']
        line = 'hash2env %d %s %s' % (case['k'], ','.join(str(i % (1 << 40)) for i in sorted(set(i % (1 << 40) for i in case['ids']))) if len(set(i % (1 << 40) for i in case['ids'])) == case['k'] else ','.join(str(3 * i + 1) for i in range(case['k'])), case['tt'])
        ans = driver_run([line], 'dev')[0]
        path = save_replay(pid, dict(case, driver_line=line, driver_answer=ans, obligation=cex['obligation']))
        if ans.startswith('ok') and 'eq=1' in ans and 'hasheq=0' in ans:
            rep.violations.append(('hash:environment-dependent', 'the same function built in two environments compares equal but hashes differently (%s)' % line, path))
            print('CONFIRMED ' + line + ': ' + ans)
        else:
            rep.inconclusive.append('%s: address-dependent hash did not show through the driver (%s)' % (name, ans[:80]))
    elif cex['case'].get('kind') == 'symhash':
        case = cex['case']
        n1 = ''.join(ch for ch in case['names'][0] if ch.isalnum()) or 'a'
        n2 = ''.join(ch for ch in case['names'][1] if ch.isalnum()) or 'b'
        if n1 == n2:
            n2 = n2 + 'x'
        line = 'symhash %d %s %s' % (case['id'] % (1 << 62), n1, n2)
        ans = driver_run([line], 'dev')[0]
        path = save_replay(pid, dict(case, driver_line=line, driver_answer=ans, obligation=cex['obligation']))
        if ans.startswith('ok') and 'eq=1' in ans and 'hasheq=0' in ans:
            rep.violations.append(('symbol:hash-vs-eq', 'symbols with id %d named %s / %s compare equal but hash differently: unique-table lookups miss and equal nodes are stored twice' % (case['id'] % (1 << 62), n1, n2), path))
            print('CONFIRMED ' + line + ': ' + ans)
        else:
            rep.inconclusive.append('%s: hash/eq counterexample did not reproduce (%s)' % (name, ans[:80]))
    elif cex['case'].get('kind') in ('table', 'freeindex', 'vars'):
        import printcore
        printcore.replay_print(rep, pid, name, cex)
    elif cex['case'].get('kind') in ('dotbdd', 'dotparse'):
        import dotcore
        dotcore.replay_dot(rep, pid, name, cex)
    elif cex['case'].get('kind') == 'cli':
        import maincore
        maincore.replay_cli(rep, pid, name, cex)
    elif cex['case'].get('kind') == 'parse':
        import c08
        c08.replay_parse(rep, pid, name, cex)
    elif cex['case'].get('kind') in ('token', 'tokenids'):
        import tokencore
        tokencore.replay_token(rep, pid, name, cex)
    elif cex['case'].get('kind') == 'regex':
        import regexcore
        regexcore.replay_regex(rep, pid, name, cex)
    elif cex['case'].get('kind') == 'set':
        import c19
        case = cex['case']
        steps, _ = c19.set_script(case)
        line = 'set %d %s' % (case['bits'], ' '.join(steps))
        verd = {}
        for profile in ('dev', 'release'):
            ans = driver_run([line], profile)[0]
            verd[profile] = c19.judge_set(case, ans) + (ans,)
        case.update(obligation=cex['obligation'], unit=name, driver_line=line,
                    replay={p: {'violates': v[0], 'what': v[1], 'driver_answer': v[2][:300]} for p, v in verd.items()})
        path = save_replay(pid, case)
        ok = [p for p, v in verd.items() if v[0]]
        if ok:
            d = verd[ok[0]][1]
            key = 'set:%s:%s%s' % (case['op'], 'panic' if d.startswith('panic') else 'wrong', ':aliased' if case['alias'] else '')
            rep.violations.append((key, '`%s`: %s' % (line, d), path))
            print('CONFIRMED %s: %s' % (line, d))
        else:
            rep.inconclusive.append('%s: counterexample did not reproduce (%s)' % (name, verd['dev'][1]))
            print('NOT-REPRODUCED %s: %s' % (line, verd['dev'][1]))
    elif cex['case'].get('kind') == 'freevars':
        import c09
        c09.replay_freevars(rep, name, cex)
    elif cex['case'].get('kind') == 'formula':
        import evalcore
        evalcore.replay_formula(rep, pid, name, cex)
    else:
        replay_cex(rep, pid, name, cex)



def run_property(pid, units, validate_ops, selftests, bounds, assumptions, uncovered, level='model_checking', extra_jobs=()):
    """units: list of (name, spec_name, k, opts)"""
    rep = Report(pid, level)
    rep.bounds = bounds
    rep.assumptions = assumptions
    rep.uncovered = uncovered
    try:
        build_driver('dev')
        build_driver('release')
    except Exception as e:   # noqa
        rep.inconclusive.append('replay driver does not build against the current tree: %s' % str(e)[-300:])
    # translator validation first: a mismatch means the engine does not model this tree faithfully
    if not rep.inconclusive:
        try:
            bad = validate_translator(rep, validate_ops, n=16 if TIER == 'quick' else 48)
            for b in bad:
                rep.inconclusive.append('translator validation: ' + b)
        except (Unsupported, EngineError) as e:
            rep.inconclusive.append('translator validation: %s' % e)
    jobs = [(name, bddcore.run_op_unit, (spec, k, opts)) for name, spec, k, opts in units]
    # self-tests run as ordinary units on a mutated MIR; they must come back sat
    for name, spec, k, opts in selftests:
        jobs.append(('selftest:' + name, bddcore.run_op_unit, (spec, k, opts)))
    jobs += list(extra_jobs)
    results = run_units(jobs)
    st = {}
    for name in list(results):
        if name.startswith('selftest:'):
            r = results.pop(name)
            caught = any(q['result'] == 'sat' and q.get('expect') == 'unsat' for q in r.get('queries', []))
            if r.get('status') == 'inconclusive' and 'pattern not found' in str(r.get('error')):
                st[name] = 'not applicable on this tree (%s)' % r.get('error')
            elif caught:
                st[name] = 'mutant detected (sat)'
            else:
                st[name] = 'MUTANT NOT DETECTED'
                rep.inconclusive.append('%s: the seeded MIR mutation was not detected: the encoding lost the code' % name)
    rep.selftest = st
    # rely/guarantee bookkeeping: every contract used as a summary must be discharged by a unit of this run whose
    # function under test is that operation (structural obligation, all queries unsat)
    proved, used = set(), {}
    for name, r in results.items():
        qs = r.get('queries', [])
        has_struct = any(q['name'].startswith('result == canonical') for q in qs)
        if r.get('status') == 'pass' and has_struct and all(q['result'] == q.get('expect', 'unsat') for q in qs):
            proved.add(r.get('method'))
        if r.get('eqfail'):
            # derived PartialEq / Hash of BDD disagree with the denoted function: a C02 violation without a driver replay
            # (the driver cannot observe more than the same two diagrams compared by the same impl)
            rep.inconclusive.append('%s: obligation "%s" fails (sat)' % (name, r['eqfail']))
        for callee, n in (r.get('summaries_used') or {}).items():
            if not (callee == r.get('method') and r.get('inductive')):
                used.setdefault(callee, []).append(name)
    alias = {'mk_const': 'mk_const'}
    missing = sorted(c for c in used if c not in proved)
    rep.extra['contracts'] = {'used_as_summaries': {c: len(v) for c, v in used.items()}, 'discharged_by_units_of_this_run': sorted(x for x in proved if x),
                              'used_without_discharge': missing}
    for c in missing:
        rep.inconclusive.append('contract of BDDEnv::%s is used as a summary (by %s) but no unit of this run discharges it' % (c, used[c][0]))
    rep.absorb(results)
    for name, r in sorted(results.items()):
        if r.get('cex'):
            route_replay(rep, pid, name, r['cex'])
    return rep
