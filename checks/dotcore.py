"""C14 - units over the crate's Graphviz description of a diagram (src/bdd_io.rs) and of a parse tree
(src/parser_io.rs).

`dot::render` (external crate) is replaced by its contract: it emits one node statement `id [label=..]` per element of
`GraphWalk::nodes()` (id from `Labeller::node_id`, label from `node_label`) and one edge statement
`source_id -> target_id [label=..]` per element of `edges()`.  The crate's own implementations of these trait methods
are executed from MIR on a symbolic canonical diagram / a formula sketch; the obligations are the property's clauses
read over that description: every node declared once, every edge between declared nodes, and the description *read
back* as a decision graph (term) denotes the function (is the tree) it was made from.  Counterexamples are replayed
through the real binary: `rsbdd -d` / `-p` writes the DOT text, an independent Python reader parses and evaluates it."""
import z3
from common import *   # noqa
from mirsym.harness import *   # noqa
from mirsym.interp import Outcome, Outs, CellState
from mirsym import rustdefs
import bddcore
from bddcore import world_for, table_env, interp_summary, apply_mir_mutation, concrete_ids
import evalcore
import fsem

rustdefs.STD_ENUMS.setdefault('LabelText', ['LabelStr', 'EscStr', 'HtmlStr'])


def install_dot_models(I):
    T = I.models.table
    import re

    def id_new(I2, fr, a, ck):
        s = I2.peel_all(a[0], fr)
        if not isinstance(s, Str):
            raise Unsupported('dot::Id::new on %s' % type(s).__name__)
        if isinstance(s.s, str) and not re.fullmatch(r'[A-Za-z_][A-Za-z0-9_]*', s.s):
            return mk('Result', 1, [UNIT])
        return mk('Result', 0, [s])
    T[('Id', None, 'new')] = id_new

    def label(I2, fr, a, ck):
        s = I2.peel_all(a[0], fr)
        if not isinstance(s, Str):
            raise Unsupported('LabelText::label on %s' % type(s).__name__)
        return mk('LabelText', 0, [s])
    T[('LabelText', None, 'label')] = label
    I.defs.enums.setdefault('LabelText', ['LabelStr', 'EscStr', 'HtmlStr'])


def text_of(I, v):
    """Str inside an Id / LabelText / Cow / reference"""
    for _ in range(8):
        if isinstance(v, Str):
            return v
        if isinstance(v, SRef):
            v = v.val
        elif isinstance(v, (RcV, BoxV)):
            v = v.inner
        elif isinstance(v, Adt) and len(v.alts) == 1:
            (idx, (g, fs)), = v.alts.items()
            if len(fs) != 1:
                break
            v = fs[0]
        else:
            break
    raise Unsupported('text of %s' % type(v).__name__)


def call1(I, ty, trait, name, args, mem):
    outs = I.run(ty, trait, name, args, mem)
    rets, pc, pm = outcome_split(outs)
    return rets, pc


def _one(rets, what):
    """merge the return outcomes of a call on a concrete-shape argument into one value"""
    val = None
    for o in rets:
        val = o.value if val is None else merge(o.guard, o.value, val)
    if val is None:
        raise EngineError('%s did not return' % what)
    return val


def unit_bdd_graph(k, opts):
    """BDDGraph (src/bdd_io.rs) of the canonical diagram of an unknown function of k variables, unknown filter"""
    I = load('lib', dict(opts.get('config') or {}, format_symbolic='prop'))
    if opts.get('mutate'):
        apply_mir_mutation(I, opts['mutate'])
    install_dot_models(I)
    w = world_for(k)
    w.distinct_names = True
    w.names = ['v%d' % i for i in range(k)]
    w.syms = [w.symbol(w.ids[i], w.names[i]) for i in range(k)]
    env, mem = table_env(I)
    TT = w.tt('f')
    root = w.canon(TT)
    flt, fsel, fcons = bddcore.filter_value('flt')
    gouts = I.run('BDDGraph', None, 'new', [mk_sref(root), flt], mem)
    grets, pc_all, _ = outcome_split(gouts)
    g = _one(grets, 'BDDGraph::new')
    nouts = I.run('BDDGraph', 'GraphWalk', 'nodes', [mk_sref(g)], mem)
    nrets, pc, _ = outcome_split(nouts)
    pc_all = gor(pc_all, pc)
    eouts = I.run('BDDGraph', 'GraphWalk', 'edges', [mk_sref(g)], mem)
    erets, pc, _ = outcome_split(eouts)
    pc_all = gor(pc_all, pc)
    sig = [z3.Bool('sg%d' % i) for i in range(k)]
    val = False
    for j, sg in enumerate(all_assignments(k)):
        val = gor(val, gand(TT[j], *[(sig[i] if sg[i] else gnot(sig[i])) for i in range(k)]))
    bad_dup = bad_ref = bad_val = bad_leaf = bad_label = False
    Q = Veq()

    def texts(method, trait, items, guard):
        nonlocal pc_all
        out = []
        for x in items:
            rets, pc = call1(I, 'BDDGraph', trait, method, [mk_sref(g), mk_sref(x)], mem)
            pc_all = gor(pc_all, gand(guard, pc))
            out.append(text_of(I, _one(rets, method)))
        return out
    # the id the root itself would get (where reading starts)
    rrets, pc = call1(I, 'BDDGraph', 'Labeller', 'node_id', [mk_sref(g), mk_sref(root)], mem)
    pc_all = gor(pc_all, pc)
    root_id = text_of(I, _one(rrets, 'node_id'))
    nshapes = 0
    for nr in nrets:
        nodes = list(I.peel_all(nr.value, None).items) if not isinstance(nr.value, Seq) else list(nr.value.items)
        ids = texts('node_id', 'Labeller', nodes, nr.guard)
        labels = texts('node_label', 'Labeller', nodes, nr.guard)
        n = len(nodes)
        for i in range(n):
            for j in range(i + 1, n):
                bad_dup = gor(bad_dup, gand(nr.guard, Q.eq(ids[i], ids[j])))
        for er in erets:
            gg = gand(nr.guard, er.guard)
            if g_false(gg):
                continue
            nshapes += 1
            edges = list(er.value.items)
            srcs, tgts, labs = [], [], []
            for e in edges:
                for meth, acc in (('source', srcs), ('target', tgts)):
                    rets, pc = call1(I, 'BDDGraph', 'GraphWalk', meth, [mk_sref(g), mk_sref(e)], mem)
                    pc_all = gor(pc_all, gand(gg, pc))
                    nd = _one(rets, meth)
                    r2, pc = call1(I, 'BDDGraph', 'Labeller', 'node_id', [mk_sref(g), mk_sref(nd)], mem)
                    pc_all = gor(pc_all, gand(gg, pc))
                    acc.append(text_of(I, _one(r2, 'node_id')))
                rets, pc = call1(I, 'BDDGraph', 'Labeller', 'edge_label', [mk_sref(g), mk_sref(e)], mem)
                pc_all = gor(pc_all, gand(gg, pc))
                labs.append(text_of(I, _one(rets, 'edge_label')))
            m = len(edges)
            src_is = [[Q.eq(srcs[e], ids[i]) for i in range(n)] for e in range(m)]
            tgt_is = [[Q.eq(tgts[e], ids[i]) for i in range(n)] for e in range(m)]
            for e in range(m):
                bad_ref = gor(bad_ref, gand(gg, gnot(gand(gor(*src_is[e]) if n else False, gor(*tgt_is[e]) if n else False))))
            # read back: walk from the root's id following T / F edges
            isT = [Q.eq(labs[e], Str('T')) for e in range(m)]
            isF = [Q.eq(labs[e], Str('F')) for e in range(m)]
            lab_true = [Q.eq(labels[i], Str('true')) for i in range(n)]
            lab_false = [Q.eq(labels[i], Str('false')) for i in range(n)]
            lab_var = [[Q.eq(labels[i], Str(w.names[v])) for v in range(k)] for i in range(n)]
            for i in range(n):
                bad_label = gor(bad_label, gand(gg, gnot(gor(lab_true[i], lab_false[i], *lab_var[i]))))
            cur = [Q.eq(root_id, ids[i]) for i in range(n)]
            fell = gnot(gor(*cur)) if n else True          # the root itself is not declared (an omitted leaf)
            fell_true = gand(fell, gor(*TT)) if False else None
            # value when reading falls off the graph: the omitted leaf is the one opposite to the filter
            ambiguous = False
            for step in range(k + 1):
                nxt = [False] * n
                newfell = fell
                for i in range(n):
                    if g_false(cur[i]):
                        continue
                    branch = gor(*[gand(lab_var[i][v], sig[v]) for v in range(k)])       # take the T edge
                    isleaf = gor(lab_true[i], lab_false[i])
                    took = False
                    for e in range(m):
                        use = gand(cur[i], gnot(isleaf), src_is[e][i], gor(gand(branch, isT[e]), gand(gnot(branch), isF[e])))
                        if g_false(use):
                            continue
                        ambiguous = gor(ambiguous, gand(use, took))
                        took = gor(took, use)
                        for j in range(n):
                            nxt[j] = gor(nxt[j], gand(use, tgt_is[e][j]))
                    nxt[i] = gor(nxt[i], gand(cur[i], isleaf))
                    newfell = gor(newfell, gand(cur[i], gnot(isleaf), gnot(took)))
                cur, fell = nxt, newfell
            reached_true = gor(*[gand(cur[i], lab_true[i]) for i in range(n)]) if n else False
            reached_false = gor(*[gand(cur[i], lab_false[i]) for i in range(n)]) if n else False
            # filter Any: nothing may be missing; True: what is missing is the false leaf; False: the true leaf
            okv = gor(gand(reached_true, val), gand(reached_false, gnot(val)),
                      gand(fell, fsel[0], gnot(val)), gand(fell, fsel[1], val))
            bad_val = gor(bad_val, gand(gg, gor(gnot(okv), ambiguous)))
            # "only the opposite leaf and the edges into it are omitted": with True no false leaf is declared and with
            # False no true leaf (with Any both may be)
            for i in range(n):
                bad_leaf = gor(bad_leaf, gand(gg, gor(gand(fsel[0], lab_false[i]), gand(fsel[1], lab_true[i]))))
    assumptions = list(w.constraints) + list(fcons)
    res = dict(queries=[], method=None, outcomes=nshapes)
    cex = None

    def case(model):
        model = model or {}
        tt = ''.join('1' if model.get('f_%d' % j) else '0' for j in range(1 << k))
        return dict(kind='dotbdd', k=k, ids=concrete_ids(model, w), tt=tt, filter=['True', 'False', 'Any'][bddcore.sel_index(model, 'flt', 3)])

    def ask(name, neg, expect='unsat'):
        nonlocal cex
        q = decide(name, assumptions, neg, timeout_s=opts.get('timeout', 250))
        q['expect'] = expect
        m = q.pop('model', None)
        res['queries'].append(q)
        if q['result'] == 'sat' and expect == 'unsat' and cex is None:
            cex = dict(obligation=name, case=case(m))
        elif q['result'] not in ('sat', 'unsat'):
            res['status'] = 'inconclusive'
            res['error'] = 'solver: ' + q['result']
    ask('assumptions-satisfiable', True, 'sat')
    ask('building the graph description does not panic', pc_all)
    ask('every declared node has its own id (declared exactly once)', bad_dup)
    ask('every edge runs between declared nodes', bad_ref)
    ask('every node label is a variable name or true / false', bad_label)
    ask('read back from the root id along T / F edges, the description evaluates to the function (a missing edge or node stands for the leaf the filter omits)', bad_val)
    ask('under filter True no false leaf is declared, under False no true leaf', bad_leaf)
    res.update(interp_summary(I))
    res['cex'] = cex
    res['sample'] = dict(unit='BDDGraph nodes / edges / ids / labels k=%d' % k, diagram='canonical diagram of an unknown truth table', filter='unknown', shapes=nshapes,
                         obligations=[q['name'] for q in res['queries']])
    return res


# ------------------------------------------------------------------------------------------------ parse-tree export

from mirsym.models import text_concat   # noqa


def T(s):
    return TextAlts.of(s)


def choice_text(ch):
    return TextAlts([(ch.g(o), (o,)) for o in ch.options if not g_false(ch.g(o))])


def sym_text(w, ch):
    return TextAlts([(ch.sel[i], (w.names[i],)) for i in range(w.k) if not g_false(ch.sel[i])])


def expected(w, t):
    """(label TextAlts, [(edge label str, child tree)]) of a sketch node, as src/parser_io.rs documents it"""
    kind = t[0]
    if kind == 'leaf':
        alts = []
        for i in range(w.k):
            g = gand(t[1].g('var'), t[2].sel[i])
            if not g_false(g):
                alts.append((g, ('Var ' + w.names[i],)))
        for opt, txt in (('true', 'True'), ('false', 'False')):
            if not g_false(t[1].g(opt)):
                alts.append((t[1].g(opt), (txt,)))
        return TextAlts(alts), []
    if kind == 'not':
        return T('Not'), [('', t[1])]
    if kind == 'bin':
        return choice_text(t[1]), [('L', t[2]), ('R', t[3])]
    if kind == 'ite':
        return T('Ite'), [('If', t[1]), ('Then', t[2]), ('Else', t[3])]
    if kind == 'q':
        parts = [choice_text(t[1]), ' [']
        for j, s in enumerate(t[2]):
            if j:
                parts.append(', ')
            parts.append(sym_text(w, s))
        parts.append(']')
        return text_concat(parts), [('', t[3])]
    if kind == 'cc':
        n = t[3]
        return text_concat([choice_text(t[1]), ' ', TextAlts([(True, ((('int', n) if not isinstance(n, int) else str(n)),))])]), [('{%d}' % j, c) for j, c in enumerate(t[2])]
    if kind == 'cv':
        return choice_text(t[1]), [('L{%d}' % j, c) for j, c in enumerate(t[2])] + [('R{%d}' % j, c) for j, c in enumerate(t[3])]
    if kind == 'fp':
        init = t[2]
        name = sym_text(w, t[1])
        if isinstance(init, bool):
            return text_concat(['GFP ' if init else 'LFP ', name]), [('', t[3])]
        return text_concat([TextAlts([(init, ('GFP ',)), (gnot(init), ('LFP ',))]), name]), [('', t[3])]
    raise KeyError(kind)


def unit_parse_tree(shape, k, opts):
    """SymbolicParseTree (src/parser_io.rs) of a formula sketch: nodes, edges, labels read back as a term"""
    I = load('lib', dict(opts.get('config') or {}, format_symbolic='prop'))
    if opts.get('mutate'):
        apply_mir_mutation(I, opts['mutate'])
    install_dot_models(I)
    w = world_for(k)
    w.distinct_names = True
    w.names = ['v%d' % i for i in range(k)]
    w.syms = [w.symbol(w.ids[i], w.names[i]) for i in range(k)]
    sk = evalcore.Sketch(shape, k)
    tv = evalcore.to_value(I, w, sk.tree)
    outs = I.run('SymbolicParseTree', None, 'new', [mk_sref(tv)], {})
    prets, pc_all, _ = outcome_split(outs)
    fields = I.defs.structs['SymbolicParseTree']
    Q = Veq()
    bad_dup = bad_root = bad_term = bad_edge = False
    nshapes = 0
    for pr in prets:
        pt = pr.value
        nodes = pt.alts[0][1][fields.index('nodes')]
        n = len(nodes.items)
        # the walker's node list is 0..n
        nrets, pc = call1(I, 'SymbolicParseTree', 'GraphWalk', 'nodes', [mk_sref(pt)], pr.mem)
        pc_all = gor(pc_all, gand(pr.guard, pc))
        for nr in nrets:
            lst = nr.value
            if not (isinstance(lst, Seq) and [x for x in lst.items] == list(range(n))):
                bad_term = gor(bad_term, gand(pr.guard, nr.guard))
        for i in range(n):
            for j in range(i + 1, n):
                bad_dup = gor(bad_dup, gand(pr.guard, Q.eq(nodes.items[i], nodes.items[j])))
        labels = []
        for i in range(n):
            rets, pc = call1(I, 'SymbolicParseTree', 'Labeller', 'node_label', [mk_sref(pt), mk_sref(i)], pr.mem)
            pc_all = gor(pc_all, gand(pr.guard, pc))
            labels.append(text_of(I, _one(rets, 'node_label')))
        erets, pc = call1(I, 'SymbolicParseTree', 'GraphWalk', 'edges', [mk_sref(pt)], pr.mem)
        pc_all = gor(pc_all, gand(pr.guard, pc))
        for er in erets:
            gg = gand(pr.guard, er.guard)
            if g_false(gg):
                continue
            nshapes += 1
            edges = []
            for e in er.value.items:
                s_, l_, t_ = e.alts[0][1]
                rets, pc = call1(I, 'SymbolicParseTree', 'Labeller', 'edge_label', [mk_sref(pt), mk_sref(e)], pr.mem)
                pc_all = gor(pc_all, gand(gg, pc))
                edges.append((s_, text_of(I, _one(rets, 'edge_label')), t_))
            for s_, l_, t_ in edges:
                ok = gand(gor(*[Q.eq(s_, i) for i in range(n)]) if n else False, gor(*[Q.eq(t_, i) for i in range(n)]) if n else False)
                bad_edge = gor(bad_edge, gand(gg, gnot(ok)))
            memo = {}

            def match(i, t):
                key = (i, id(t))
                if key in memo:
                    return memo[key]
                lab, kids = expected(w, t)
                out_e = [(e, Q.eq(e[0], i)) for e in edges]
                out_e = [(e, g) for e, g in out_e if not g_false(g)]
                # the out-degree is the arity
                if all(g is True or g_true(g) for e, g in out_e):
                    cnt_ok = len(out_e) == len(kids)
                else:
                    sure = sum(1 for e, g in out_e if g is True or g_true(g))
                    maybe = [g for e, g in out_e if not (g is True or g_true(g))]
                    need = len(kids) - sure
                    cnt_ok = False if need < 0 or need > len(maybe) else z3.PbEq([(g, 1) for g in maybe], need)
                r = gand(Q.eq(labels[i], Str(lab)), cnt_ok)
                if not g_false(r):
                    for el, child in kids:
                        c = False
                        for (s_, l_, t_), g in out_e:
                            hit = Q.eq(l_, Str(el))
                            if g_false(hit):
                                continue
                            c = gor(c, gand(hit, gor(*[gand(Q.eq(t_, m), match(m, child)) for m in range(n)])))
                        r = gand(r, c)
                memo[key] = r
                return r
            indeg = [gor(*[Q.eq(t_, m) for s_, l_, t_ in edges]) if edges else False for m in range(n)]
            roots = [gnot(indeg[m]) for m in range(n)]
            one_root = gand(gor(*roots) if n else False, *[gnot(gand(roots[a], roots[b])) for a in range(n) for b in range(a + 1, n)])
            bad_root = gor(bad_root, gand(gg, gnot(one_root)))
            bad_term = gor(bad_term, gand(gg, gnot(gor(*[gand(roots[m], match(m, sk.tree)) for m in range(n)]) if n else True)))
    assumptions = list(w.constraints) + sk.cons
    res = dict(queries=[], method=None, outcomes=nshapes)
    cex = None

    def ask(name, neg, expect='unsat'):
        nonlocal cex
        q = decide(name, assumptions, neg, timeout_s=opts.get('timeout', 250))
        q['expect'] = expect
        m = q.pop('model', None)
        res['queries'].append(q)
        if q['result'] == 'sat' and expect == 'unsat' and cex is None:
            c = evalcore.formula_case(sk, w, k, m)
            c['kind'] = 'dotparse'
            cex = dict(obligation=name, case=c)
        elif q['result'] not in ('sat', 'unsat'):
            res['status'] = 'inconclusive'
            res['error'] = 'solver: ' + q['result']
    ask('assumptions-satisfiable', True, 'sat')
    ask('building the parse-tree description does not panic', pc_all)
    ask('identical sub-terms are one node (the node list has no two equal entries)', bad_dup)
    ask('every edge runs between declared nodes', bad_edge)
    ask('exactly one node has no incoming edge (the root)', bad_root)
    ask('read back from the root (labels, edge labels, out-degrees), the description is the parsed syntax tree', bad_term)
    res.update(interp_summary(I))
    res['cex'] = cex
    res['sample'] = dict(unit='SymbolicParseTree nodes / edges / labels for sketch %r k=%d' % (shape, k), shapes=nshapes, obligations=[q['name'] for q in res['queries']])
    return res


# ------------------------------------------------------------------------------------------------ replay: real DOT text

def read_dot(text):
    """independent reader of the DOT subset the `dot` crate writes: -> (name, [(id, label)], [(src, tgt, label)])"""
    import re
    nodes, edges = [], []
    name = None
    for ln in text.split('\n'):
        ln = ln.strip()
        m = re.match(r'^digraph\s+(\w+)\s*\{$', ln)
        if m:
            name = m.group(1)
            continue
        m = re.match(r'^(\w+)\s*->\s*(\w+)\s*\[label="((?:[^"\\]|\\.)*)"\]\s*;$', ln)
        if m:
            edges.append((m.group(1), m.group(2), m.group(3)))
            continue
        m = re.match(r'^(\w+)\s*\[label="((?:[^"\\]|\\.)*)"\]\s*;$', ln)
        if m:
            nodes.append((m.group(1), m.group(2)))
    return name, nodes, edges


def judge_dotbdd(case):
    import tempfile, os
    import printcore
    k = case['k']
    names = ['v%d' % i for i in range(k)]
    ids = printcore.compress_ids(case['ids'])
    text = printcore.dnf_text(case['tt'], names)
    d = tempfile.mkdtemp(dir=tmpdir())
    of = os.path.join(d, 'order.txt')
    open(of, 'w').write(printcore.ordering_text(names, ids))
    df = os.path.join(d, 'out.dot')
    rc, out, err = printcore.run_rsbdd(['-e', text, '-d', df, '-f', case['filter'], '-o', of])
    dot = open(df).read() if os.path.exists(df) else ''
    case['cli'] = dict(args=['-e', text, '-d', '<out.dot>', '-f', case['filter'], '-o', '<%s>' % printcore.ordering_text(names, ids)], rc=rc, dot=dot[-2000:], stderr=(err or '')[-300:])
    if rc is None:
        return None, 'timeout'
    if rc != 0:
        return (True, 'panic: ' + [l for l in err.split('\n') if 'panicked' in l][0][:160] + ' ' + err.split('\n')[1][:120]) if 'panicked' in err else (None, 'rsbdd exited %s: %s' % (rc, err[-160:]))
    problem = check_bdd_dot(dot, names, [c == '1' for c in case['tt']], case['filter'])
    return (True, problem) if problem else (False, 'agrees')


def check_bdd_dot(dot, names, tt, flt, relation='eq'):
    """read the DOT text of a diagram back; -> None or a description of the disagreement with the function tt (over
    names, first name most significant).  relation: 'eq', 'implied' (tt => graph), 'implies' (graph => tt), 'model'"""
    k = len(names)
    _, nodes, edges = read_dot(dot)
    idl = [i for i, _ in nodes]
    if len(set(idl)) != len(idl):
        return 'a node id is declared more than once: %s' % sorted(i for i in set(idl) if idl.count(i) > 1)
    lab = dict(nodes)
    for s_, t_, l_ in edges:
        if s_ not in lab or t_ not in lab:
            return 'edge %s -> %s references an undeclared node' % (s_, t_)
    if flt == 'True' and any(l == 'false' for l in lab.values()):
        return 'filter True but a false leaf is declared'
    if flt == 'False' and any(l == 'true' for l in lab.values()):
        return 'filter False but a true leaf is declared'
    roots = [i for i in idl if not any(t_ == i for _, t_, _ in edges)]
    anytrue = False
    for j in range(1 << k):
        sg = {names[i]: bool((j >> (k - 1 - i)) & 1) for i in range(k)}
        want = tt[j]
        if not idl:
            got = None
        elif len(roots) != 1:
            return 'the graph has %d nodes without incoming edge' % len(roots)
        else:
            cur = roots[0]
            got = None
            for _ in range(k + 2):
                l = lab[cur]
                if l in ('true', 'false'):
                    got = (l == 'true')
                    break
                if l not in sg:
                    return 'node label %r is neither a variable nor a leaf' % l
                nx = [t_ for s_, t_, el in edges if s_ == cur and el == ('T' if sg[l] else 'F')]
                if len(nx) > 1:
                    return 'node %s has %d %s-edges' % (cur, len(nx), 'T' if sg[l] else 'F')
                if not nx:
                    break
                cur = nx[0]
        if got is None:
            if flt == 'Any':
                return 'reading the graph under %s falls off a missing edge / node although nothing may be omitted' % sg
            got = (flt == 'False')          # what is omitted is the leaf opposite to the filter
        anytrue = anytrue or got
        bad = {'eq': got != want, 'implied': want and not got, 'implies': got and not want, 'model': got and not want}[relation]
        if bad:
            return 'read back under %s the graph gives %s, the function is %s (%s)' % (sg, got, want, relation)
    if relation == 'model' and anytrue != any(tt):
        return 'the exported model is %s although the function is %s' % ('satisfiable' if anytrue else 'unsatisfiable', 'satisfiable' if any(tt) else 'unsatisfiable')
    return None



def term_of_json(t, names):
    kind = t[0]
    if kind == 'leaf':
        return ('Var ' + names[t[2]] if t[1] == 'var' else ('True' if t[1] == 'true' else 'False'), ())
    if kind == 'not':
        return ('Not', (('', term_of_json(t[1], names)),))
    if kind == 'bin':
        return (t[1], (('L', term_of_json(t[2], names)), ('R', term_of_json(t[3], names))))
    if kind == 'ite':
        return ('Ite', tuple((l, term_of_json(x, names)) for l, x in zip(('If', 'Then', 'Else'), t[1:])))
    if kind == 'q':
        return ('%s [%s]' % (t[1], ', '.join(names[i] for i in t[2])), (('', term_of_json(t[3], names)),))
    if kind == 'cc':
        return ('%s %d' % (t[1], t[3]), tuple(('{%d}' % j, term_of_json(x, names)) for j, x in enumerate(t[2])))
    if kind == 'cv':
        return (t[1], tuple(('L{%d}' % j, term_of_json(x, names)) for j, x in enumerate(t[2])) + tuple(('R{%d}' % j, term_of_json(x, names)) for j, x in enumerate(t[3])))
    if kind == 'fp':
        return ('%s %s' % ('GFP' if t[2] else 'LFP', names[t[1]]), (('', term_of_json(t[3], names)),))
    raise KeyError(kind)


def subterms(t, acc):
    acc.add(t)
    for _, c in t[1]:
        subterms(c, acc)
    return acc


def judge_dotparse(case):
    import tempfile, os
    import printcore
    d = tempfile.mkdtemp(dir=tmpdir())
    df = os.path.join(d, 'tree.dot')
    rc, out, err = printcore.run_rsbdd(['-e', case['text'], '-p', df])
    dot = open(df).read() if os.path.exists(df) else ''
    case['cli'] = dict(args=['-e', case['text'], '-p', '<tree.dot>'], rc=rc, dot=dot[-2000:], stderr=(err or '')[-300:])
    if rc is None:
        return None, 'timeout (a fixed point that does not converge?)'
    if rc != 0 and 'panicked' in err:
        ls = err.split('\n')
        return True, 'panic: ' + ' '.join(l for l in ls if 'panicked' in l or 'cannot find' in l)[:200]
    if not dot:
        return None, 'no DOT file written (rc=%s)' % rc
    problem = check_parse_dot(dot, case['tree'], case['names'])
    return (True, problem) if problem else (False, 'agrees')


def check_parse_dot(dot, tree, names):
    """read the DOT text of a parse tree back as a term with shared sub-terms; -> None or the disagreement"""
    _, nodes, edges = read_dot(dot)
    idl = [i for i, _ in nodes]
    if len(set(idl)) != len(idl):
        return 'a node id is declared more than once'
    lab = dict(nodes)
    for s_, t_, l_ in edges:
        if s_ not in lab or t_ not in lab:
            return 'edge %s -> %s references an undeclared node' % (s_, t_)
    roots = [i for i in idl if not any(t_ == i for _, t_, _ in edges)]
    if len(roots) != 1:
        return '%d nodes without incoming edge' % len(roots)

    def term(i, depth=0):
        if depth > 50:
            raise ValueError('cycle')
        return (lab[i], tuple((el, term(t_, depth + 1)) for s_, t_, el in edges if s_ == i))
    try:
        got = term(roots[0])
    except ValueError:
        return 'the graph has a cycle'
    want = term_of_json(tree, names)
    norm = lambda t: (t[0], tuple(sorted((l, norm(c)) for l, c in t[1])))
    if norm(got) != norm(want):
        return 'read back, the DOT text is the term %s, the parsed formula is %s' % (str(norm(got))[:200], str(norm(want))[:200])
    if len(idl) != len(subterms(norm(want), set())):
        return '%d nodes declared for %d distinct sub-terms' % (len(idl), len(subterms(norm(want), set())))
    return None



def replay_dot(rep, pid, name, cex):
    case = cex['case']
    v, desc = (judge_dotbdd if case['kind'] == 'dotbdd' else judge_dotparse)(case)
    case.update(obligation=cex['obligation'], unit=name)
    path = save_replay(pid, case)
    if v:
        what = 'panic' if desc.startswith('panic') else 'wrong'
        rep.violations.append(('dot:%s:%s' % ('diagram' if case['kind'] == 'dotbdd' else 'parse-tree', what), '`rsbdd %s`: %s' % (' '.join(case['cli']['args']), desc), path))
        print('CONFIRMED rsbdd %s: %s' % (' '.join(case['cli']['args']), desc))
    else:
        rep.inconclusive.append('%s: counterexample of "%s" did not reproduce through the CLI (%s)' % (name, cex['obligation'], desc))
        print('NOT-REPRODUCED %s: %s' % (name, desc))
