"""Units over the formula evaluator (real MIR of ParsedFormula::eval / eval_recursive / replace_var / var_is_free and
BDDEnv::fp): syntax-tree *sketches* (concrete shape, every label symbolic) against the reference semantics FSEM."""
import itertools
import random
import z3

from common import *   # noqa
from mirsym.harness import *   # noqa
from mirsym.interp import Outcome, Outs
from mirsym import models as M
import bddcore
from bddcore import install_summaries, world_for, table_env, interp_summary, apply_mir_mutation, concrete_ids, unrc
import fsem
from fsem import Choice, BIN, CNT, QK, LEAF

ALL_CONTRACTS = ('and', 'or', 'not', 'implies', 'ite', 'eq', 'xor', 'nor', 'nand', 'mk_const', 'var', 'exists_impl', 'exists', 'all',
                 'aln', 'amn', 'exn', 'count_leq', 'count_lt', 'count_geq', 'count_gt', 'count_eq')


# ------------------------------------------------------------------------------------------------ sketches

class Sketch:
    def __init__(self, shape, k, prefix='s'):
        self.k = k
        self.cons = []
        self.n = 0
        self.prefix = prefix
        self.choices = []
        self.tree = self.build(shape)

    def fresh(self, base):
        self.n += 1
        return '%s%s%d' % (self.prefix, base, self.n)

    def choice(self, base, options):
        c = Choice.symbolic(self.fresh(base), options)
        self.cons += c.constraints()
        self.choices.append(c)
        return c

    def sym(self):
        return self.choice('v', list(range(self.k)))

    def build(self, sh):
        kind = sh if isinstance(sh, str) else sh[0]
        if kind == 'L':
            return ('leaf', self.choice('leaf', LEAF), self.sym())
        if kind == 'V':          # a variable leaf
            return ('leaf', Choice.concrete(LEAF, 'var'), self.sym())
        if kind == 'VC':         # the variable leaf with concrete atom sh[1]
            return ('leaf', Choice.concrete(LEAF, 'var'), Choice.concrete(list(range(self.k)), sh[1]))
        if kind == 'not':
            return ('not', self.build(sh[1]))
        if kind == 'bin':
            ops = sh[3] if len(sh) > 3 else BIN
            return ('bin', self.choice('op', ops), self.build(sh[1]), self.build(sh[2]))
        if kind == 'ite':
            return ('ite', self.build(sh[1]), self.build(sh[2]), self.build(sh[3]))
        if kind == 'q':
            return ('q', self.choice('qk', QK), [self.sym() for _ in range(sh[1])], self.build(sh[2]))
        if kind == 'cc':
            n = z3.BitVec(self.fresh('n'), 64)
            ops = sh[2] if len(sh) > 2 else CNT
            return ('cc', self.choice('cop', ops), [self.build(x) for x in sh[1]], n)
        if kind == 'cv':
            return ('cv', self.choice('cop', CNT), [self.build(x) for x in sh[1]], [self.build(x) for x in sh[2]])
        if kind == 'fp':
            init = z3.Bool(self.fresh('init')) if len(sh) < 3 else sh[2]
            return ('fp', self.sym(), init, self.build(sh[1]))
        raise KeyError(kind)


def has_kind(t, kind):
    if t[0] == kind:
        return True
    for x in t[1:]:
        if isinstance(x, tuple) and x and isinstance(x[0], str) and has_kind(x, kind):
            return True
        if isinstance(x, list):
            for y in x:
                if isinstance(y, tuple) and has_kind(y, kind):
                    return True
    return False


def shape_size(sh):
    if isinstance(sh, str):
        return 0
    n = 1
    for x in sh[1:]:
        if isinstance(x, (tuple, str)) and (isinstance(x, str) and x in ('L', 'V') or isinstance(x, tuple) and x and isinstance(x[0], str) and x[0] in ('not', 'bin', 'ite', 'q', 'cc', 'cv', 'fp')):
            n += shape_size(x)
        elif isinstance(x, (list, tuple)) and not (isinstance(x, tuple) and x and isinstance(x[0], str)):
            for y in x:
                if isinstance(y, (tuple, str)):
                    n += shape_size(y)
    return n


def shapes_one():
    """all shapes with exactly one internal node"""
    L = 'L'
    out = [('not', L), ('bin', L, L), ('ite', L, L, L), ('q', 1, L), ('q', 2, L), ('fp', L)]
    for n in range(0, 4):
        out.append(('cc', tuple([L] * n)))
    for a in range(0, 3):
        for b in range(0, 3):
            out.append(('cv', tuple([L] * a), tuple([L] * b)))
    return out


def grow(sh, sub):
    """all shapes obtained from sh by replacing one leaf by sub"""
    res = []

    def rec(x):
        if x == 'L':
            return [sub]
        if isinstance(x, str) or isinstance(x, int) or x is None:
            return []
        outs = []
        if isinstance(x, tuple) and x and isinstance(x[0], str) and x[0] in ('not', 'bin', 'ite', 'q', 'cc', 'cv', 'fp'):
            for i in range(1, len(x)):
                for r in rec(x[i]):
                    outs.append(x[:i] + (r,) + x[i + 1:])
            return outs
        if isinstance(x, tuple):
            for i in range(len(x)):
                for r in rec(x[i]):
                    outs.append(x[:i] + (r,) + x[i + 1:])
            return outs
        return []
    return rec(sh)


def shapes_two():
    out = []
    ones = shapes_one()
    small = [('not', 'L'), ('bin', 'L', 'L'), ('ite', 'L', 'L', 'L'), ('q', 1, 'L'), ('fp', 'L'), ('cc', ('L', 'L')), ('cc', ('L',)), ('cv', ('L',), ('L',))]
    for a in ones:
        for b in small:
            for g in grow(a, b):
                # only the first leaf position of each list argument (positions of one list are symmetric up to order,
                # which the symbolic labels already cover)
                out.append(g)
    # de-duplicate
    return list(dict.fromkeys(out))


# ------------------------------------------------------------------------------------------------ tree -> MIR value

def sym_value(w, ch):
    return w.symbol(OrdId(w.atoms, {i: ch.sel[i] for i in range(w.k) if not g_false(ch.sel[i])}))


def enum_value(I, ty, ch):
    alts = {}
    for o in ch.options:
        g = ch.g(o)
        if not g_false(g):
            alts[I.defs.variant_index(ty, o)] = (g, ())
    return Adt(ty, alts)


def to_value(I, w, t):
    vi = lambda name: I.defs.variant_index('SymbolicBDD', name)
    kind = t[0]
    if kind == 'leaf':
        ch, sym = t[1], t[2]
        alts = {}
        for opt, var in (('var', 'Var'), ('true', 'True'), ('false', 'False')):
            g = ch.g(opt)
            if not g_false(g):
                alts[vi(var)] = (g, (sym_value(w, sym),) if opt == 'var' else ())
        return Adt('SymbolicBDD', alts)
    if kind == 'not':
        return mk('SymbolicBDD', vi('Not'), [BoxV(to_value(I, w, t[1]))])
    if kind == 'bin':
        return mk('SymbolicBDD', vi('BinaryOp'), [enum_value(I, 'BinaryOperator', t[1]), BoxV(to_value(I, w, t[2])), BoxV(to_value(I, w, t[3]))])
    if kind == 'ite':
        return mk('SymbolicBDD', vi('Ite'), [BoxV(to_value(I, w, x)) for x in t[1:]])
    if kind == 'q':
        return mk('SymbolicBDD', vi('Quantifier'), [enum_value(I, 'QuantifierType', t[1]), Seq([sym_value(w, s) for s in t[2]]), BoxV(to_value(I, w, t[3]))])
    if kind == 'cc':
        return mk('SymbolicBDD', vi('CountableConst'), [enum_value(I, 'CountableOperator', t[1]), Seq([to_value(I, w, x) for x in t[2]]), t[3]])
    if kind == 'cv':
        return mk('SymbolicBDD', vi('CountableVariable'), [enum_value(I, 'CountableOperator', t[1]), Seq([to_value(I, w, x) for x in t[2]]), Seq([to_value(I, w, x) for x in t[3]])])
    if kind == 'fp':
        return mk('SymbolicBDD', vi('FixedPoint'), [sym_value(w, t[1]), t[2], BoxV(to_value(I, w, t[3]))])
    raise KeyError(kind)


def parsed_formula(I, w, env, mem, tree_value, fields=None):
    """a ParsedFormula value (its fields are public): vars/free_vars/raw2free as given or empty"""
    names = I.defs.structs.get('ParsedFormula')
    if not names:
        raise Unsupported('struct ParsedFormula not found')
    c = I.new_cell()
    mem = dict(mem)
    from mirsym.interp import CellState
    mem[c] = CellState(MapV(()), 0)
    vals = {'vars': Seq(()), 'free_vars': Seq(()), 'raw2free': Seq(()), 'bdd': tree_value, 'env': mk_rc(env), 'definitions': RefCellV(c)}
    if fields:
        vals.update(fields)
    out = []
    ftypes = I.defs.field_types.get('ParsedFormula', {})
    for n in names:
        if n not in vals:
            # a field added by a changed tree: its Default value, by its declared type
            t = ftypes.get(n, '')
            if 'RefCell<' in t and ('HashMap' in t or 'HashSet' in t):
                c2 = I.new_cell()
                mem[c2] = CellState(MapV(()), 0)
                vals[n] = RefCellV(c2)
            elif 'RefCell<' in t and 'Vec<' in t:
                c2 = I.new_cell()
                mem[c2] = CellState(Seq(()), 0)
                vals[n] = RefCellV(c2)
            elif t.startswith('Vec<'):
                vals[n] = Seq(())
            elif t.startswith('Option<'):
                vals[n] = mk('Option', 0, [])
            elif t == 'bool':
                vals[n] = False
            elif t in ('usize', 'u64', 'i64', 'u32'):
                vals[n] = 0
            elif 'HashMap' in t or 'HashSet' in t:
                vals[n] = MapV(())
            else:
                raise Unsupported('ParsedFormula has an unknown field `%s: %s`' % (n, t))
        out.append(vals[n])
    return mk_struct('ParsedFormula', out), mem


def install_eq_summary(I, w):
    """derived PartialEq of BDD on two values known to be canonical: equal iff their truth tables are equal
    (contract discharged by C02's `BDD::eq` unit)"""
    orig = M.m_rc_eq

    def rc_eq(I2, fr, a, ck):
        x = I2.peel_all(a[0], fr)
        y = I2.peel_all(a[1], fr)
        tx, ty = w.tt_of(x), w.tt_of(y)
        if tx is not None and ty is not None:
            I2.cfg.setdefault('summaries_used', {})['<BDD as PartialEq>::eq'] = I2.cfg.setdefault('summaries_used', {}).get('<BDD as PartialEq>::eq', 0) + 1
            e = gand(*[beq(p, q) for p, q in zip(tx, ty)])
            return gnot(e) if ck.method == 'ne' else e
        return orig(I2, fr, a, ck)
    I.models.table[('Rc', 'PartialEq', 'eq')] = rc_eq
    I.models.table[('Rc', 'PartialEq', 'ne')] = rc_eq


def setup_eval(opts, k):
    I = load('lib', dict(opts.get('config') or {}, loop_bound=opts.get('loop_bound', (1 << k) + 3)))
    if opts.get('mutate'):
        apply_mir_mutation(I, opts['mutate'])
    w = world_for(k)
    env, mem = table_env(I)
    if opts.get('summaries', True):
        install_summaries(I, w, ALL_CONTRACTS)
        install_eq_summary(I, w)
    return I, w, env, mem


def result_tt_eq(w, rv, exp_tt):
    """Bool: the returned diagram is the canonical diagram of exp_tt"""
    t = w.tt_of(rv)
    if t is not None:
        return gand(*[beq(a, b) for a, b in zip(t, exp_tt)])
    return Veq().eq(rv, w.canon(exp_tt))


def unit_sketch(shape, k, opts):
    I, w, env, mem = setup_eval(opts, k)
    sk = Sketch(shape, k)
    tv = to_value(I, w, sk.tree)
    pf, mem = parsed_formula(I, w, env, mem, tv)
    U = opts.get('fp_bound', (1 << k) + 1)
    ref = fsem.Sem(k, U)
    exp = ref.sem(sk.tree)
    outs = I.run('ParsedFormula', None, 'eval', [mk_sref(pf)], mem)
    rets, pc, pmsgs = outcome_split(outs)
    assumptions = list(w.constraints) + sk.cons + [gnot(ref.nonconv)] + list(opts.get('assume', []))
    res = dict(queries=[], method='eval', shape=repr(shape))
    cex = None
    to = opts.get('timeout', 200)

    def ask(name, neg, expect='unsat'):
        nonlocal cex
        q = decide(name, assumptions, neg, timeout_s=to)
        q['expect'] = expect
        model = q.pop('model', None)
        res['queries'].append(q)
        if q['result'] == 'sat' and expect == 'unsat' and cex is None:
            cex = dict(obligation=name, case=formula_case(sk, w, k, model))
        if q['result'] not in ('sat', 'unsat'):
            res['status'] = 'inconclusive'
            res['error'] = 'solver answered %s on %s' % (q['result'], name)
    ask('assumptions-satisfiable', True, 'sat')
    ask('no panic / overflow / non-termination within the unrolling bound', pc)
    bad = False
    for r in rets:
        bad = gor(bad, gand(r.guard, gnot(result_tt_eq(w, r.value, exp))))
    ask('diagram returned by eval == canonical diagram of the documented meaning', bad)
    res.update(interp_summary(I))
    res['summaries_used'] = I.cfg.get('summaries_used', {})
    res['cex'] = cex
    res['sample'] = dict(unit='eval sketch %r k=%d' % (shape, k), functions='ParsedFormula::eval, eval_recursive, replace_var, BDDEnv::fp',
                         labels='every operator / quantifier kind / counting kind / constant n (64 bit) / fixed-point start / variable id symbolic',
                         obligations=[q['name'] for q in res['queries']])
    return res


def formula_case(sk, w, k, model):
    model = model or {}
    tree = fsem.concretise(sk.tree, model)
    names = list(w.names) if getattr(w, 'distinct_names', False) else ['v%d' % i for i in range(k)]
    ids = concrete_ids(model, w)
    return dict(kind='formula', text=fsem.to_text(tree, names), names=names, ids=ids, k=k, tree=fsem.tree_to_json(tree))


def formula_line(case, mode='evalall'):
    text = case['text'].encode().hex()
    ordering = ','.join('%s:%d' % (n, i) for n, i in zip(case['names'], case['ids']))
    return 'formula %s %s %s' % (text, ordering or '-', mode)


def judge_formula(case, ans, fp_bound=None):
    """-> (violates, description) for the driver's answer on a formula case"""
    d = parse_driver(ans)
    k = case['k']
    ref = fsem.Sem(k, fp_bound or ((1 << k) + 1))
    exp = ref.sem(fsem.tree_from_json(case['tree'], k))
    if ref.nonconv is True or (not isinstance(ref.nonconv, bool)):
        return None, 'reference fixed point does not converge within the bound: outside the claim'
    if d['status'] == 'panic':
        return True, 'panic: ' + ans[6:140]
    if d['status'] == 'timeout':
        return True, 'hang: evaluation does not terminate although the documented fixed point converges (%s)' % ans
    if d['status'] == 'err':
        return True, 'well-formed formula rejected: ' + ans[:100]
    if d['status'] != 'ok':
        return None, 'driver: ' + ans[:120]
    got = [c == '1' for c in d['tt']]
    want = [bool(x) for x in exp]
    if got != want:
        return True, 'evaluates to %s, documented meaning %s' % (d['tt'], ''.join('1' if x else '0' for x in want))
    if d.get('wf') != '1':
        return True, 'result not ordered/reduced: ' + d.get('dia', '')
    return False, 'agrees'


def replay_formula(rep, pid, name, cex, keyprefix='eval'):
    case = cex['case']
    line = formula_line(case)
    verdicts = {}
    for profile in ('dev', 'release'):
        ans = driver_run([line], profile, timeout=20)[0]
        verdicts[profile] = judge_formula(case, ans) + (ans,)
    case['obligation'] = cex['obligation']
    case['unit'] = name
    case['driver_line'] = line
    case['replay'] = {p: {'violates': v[0], 'what': v[1], 'driver_answer': v[2][:300]} for p, v in verdicts.items()}
    path = save_replay(pid, case)
    ok = [p for p, v in verdicts.items() if v[0]]
    if not ok:
        # second attempt: the formula evaluated twice in its environment (history: the second answer must be the same)
        line2 = formula_line(case, 'evaltwice')
        ans = driver_run([line2], 'dev', timeout=20)[0]
        v2 = judge_formula(case, ans)
        if v2[0]:
            verdicts = {'dev': (v2[0], v2[1] + ' [second evaluation in the same environment]', ans)}
            case['driver_line'] = line2
            ok = ['dev']
            path = save_replay(pid, case)
    if ok:
        v = verdicts[ok[0]]
        kind = 'panic' if v[1].startswith('panic') else ('hang' if v[1].startswith('hang') else 'wrong-result')
        key = '%s:%s:%s' % (keyprefix, finding_role(case), kind)
        rep.violations.append((key, '`%s` (%s build): %s' % (case['text'], '+'.join(ok), v[1]), path))
        print('CONFIRMED %s: %s' % (case['text'], v[1]))
    else:
        rep.inconclusive.append('%s: counterexample `%s` did not reproduce on the real crate (%s)' % (name, case['text'], verdicts['dev'][1]))
        print('NOT-REPRODUCED %s: %s' % (case['text'], verdicts['dev'][1]))


def finding_role(case):
    """role key of a formula counterexample: the outermost construct kinds involved"""
    t = case.get('tree') or ['?']
    kinds = []

    def rec(x):
        if isinstance(x, list) and x and isinstance(x[0], str) and x[0] in ('leaf', 'not', 'bin', 'ite', 'q', 'cc', 'cv', 'fp'):
            if x[0] != 'leaf':
                kinds.append(x[0] + (':' + str(x[1]) if x[0] in ('cc', 'cv') else ''))
            for y in x[1:]:
                rec(y)
        elif isinstance(x, list):
            for y in x:
                rec(y)
    rec(t)
    return '+'.join(sorted(set(kinds))) or 'leaf'
