"""Units over the BDDEnv core (real MIR of src/bdd.rs): every public operation on arbitrary canonical operands.

An operand is the canonical diagram of a symbolic truth table over k ordered atoms (symbolic 64-bit ids, any spacing).
Because operands are *arbitrary* canonical diagrams and the obligation includes that the result is canonical again,
each unit is one inductive step that covers construction routes of any length; the bound is k (number of variables),
list lengths and loop unrollings, all recorded in the evidence."""
import random
import z3
import json
import os

from common import *   # noqa
from mirsym.harness import *   # noqa
from mirsym import harness as H
from mirsym.interp import Outcome, Outs

INT64_MIN = -(1 << 63)
INT64_MAX = (1 << 63) - 1


# ------------------------------------------------------------------------------------------------ symbolic helpers

def one_hot(name, n):
    sel = [z3.Bool('%s_is%d' % (name, i)) for i in range(n)]
    cons = [z3.Or(*sel)] if n > 1 else [sel[0]]
    for i in range(n):
        for j in range(i + 1, n):
            cons.append(z3.Or(z3.Not(sel[i]), z3.Not(sel[j])))
    return sel, cons


def any_symbol(w, name):
    """a symbol whose id is any of the world's atoms (one-hot choice)"""
    sel, cons = one_hot(name, w.k)
    w.constraints.extend(cons)
    return w.symbol(OrdId(w.atoms, {i: sel[i] for i in range(w.k)})), sel


def cof(tt, k, i, val):
    """truth table of tt with variable i fixed to val (same length)"""
    out = []
    for j in range(1 << k):
        bit = 1 << (k - 1 - i)
        jj = (j | bit) if val else (j & ~bit)
        out.append(tt[jj])
    return out


def tt_exists(tt, k, i):
    a, b = cof(tt, k, i, False), cof(tt, k, i, True)
    return [gor(x, y) for x, y in zip(a, b)]


def tt_forall(tt, k, i):
    a, b = cof(tt, k, i, False), cof(tt, k, i, True)
    return [gand(x, y) for x, y in zip(a, b)]


def tt_depends(tt, k, i):
    a, b = cof(tt, k, i, False), cof(tt, k, i, True)
    return gor(*[gnot(beq(x, y)) for x, y in zip(a, b)])


def tt_ite(c, a, b):
    return [gite(x, y, z) for x, y, z in zip(c, a, b)]


def bxor(a, b):
    return gnot(beq(a, b))


BINOPS = {
    'and': lambda a, b: gand(a, b),
    'or': lambda a, b: gor(a, b),
    'implies': lambda a, b: gor(gnot(a), b),
    'eq': lambda a, b: beq(a, b),
    'xor': lambda a, b: bxor(a, b),
    'nor': lambda a, b: gnot(gor(a, b)),
    'nand': lambda a, b: gnot(gand(a, b)),
}


def count_bv(bits, width=64):
    s = z3.BitVecVal(0, width)
    for b in bits:
        if isinstance(b, bool):
            if b:
                s = s + 1
        else:
            s = s + z3.If(b, z3.BitVecVal(1, width), z3.BitVecVal(0, width))
    return z3.simplify(s) if all(isinstance(b, bool) for b in bits) else s


def concrete_tt(model, name, k):
    return ''.join('1' if model.get('%s_%d' % (name, j), False) else '0' for j in range(1 << k))


def concrete_ids(model, w, base=None):
    """concrete ascending ids for the atoms (from the model when the atom constants occur in it)"""
    ids = []
    ok = True
    for i in range(w.k):
        a = w.atoms[i]
        if isinstance(a, int):
            ids.append(a)
        else:
            v = model.get(a.decl().name())
            if v is None:
                ok = False
                break
            ids.append(v)
    if ok and all(ids[i] < ids[i + 1] for i in range(len(ids) - 1)):
        return ids
    rnd = random.Random(SEED)
    cur = rnd.randint(0, 4)
    ids = []
    for i in range(w.k):
        ids.append(cur)
        cur += rnd.randint(1, 6)
    return ids


def sel_index(model, name, n):
    for i in range(n):
        if model.get('%s_is%d' % (name, i)):
            return i
    return 0


def world_for(k, seed_ids=None, kind='named'):
    return World(k, kind, concrete_ids=seed_ids)


def table_env(I, mode=None):
    if mode:
        I.cfg['table_mode'] = mode
    return new_env(I, {})


# ------------------------------------------------------------------------------------------------ contract summaries
# A call to an operation whose contract "result == canonical diagram of <function of the operands' truth tables>" is
# discharged as an obligation of its own unit (rely/guarantee) may be replaced by that contract when all diagram
# arguments are known canonical values (ghost truth table attached by the harness constructor and by merging).  With
# `inductive` the recursive calls of the function under test itself are summarised too, which turns the unit into the
# inductive step of a structural induction (the harness checks that the recursive arguments are sub-diagrams).

def _sym_sel(w, s):
    """symbol value -> list of k guards 'symbol is atom i' (None if not an atom choice)"""
    idv = w.sym_id(s)
    if isinstance(idv, OrdId) and idv.atoms is w.atoms:
        return [idv.alts.get(i, False) for i in range(w.k)]
    return None


def _closure_bool(I, fr, f, x):
    """value of a pure predicate closure / fn item on x, as a Bool term"""
    outs = I.call_value(fr, f, [x])
    val = None
    for o in outs:
        if o.kind == 'panic' and not g_false(o.guard):
            return None
        if o.kind == 'ret':
            val = o.value if val is None else gite(o.guard, o.value, val)
    return val


def _seq_tts(w, v):
    s = v.val if isinstance(v, SRef) else v
    if not isinstance(s, Seq):
        return None
    tts = [w.tt_of(x) for x in s.items]
    if any(t is None for t in tts):
        return None
    return tts


def _bv64(n):
    return z3.BitVecVal(n, 64) if isinstance(n, int) else n


def contract_tt(w, name, args, I=None, fr=None):
    """truth table promised by the contract of BDDEnv::<name> for these (post-&self) arguments, or None"""
    k = w.k
    T = w.tt_of
    if name in BINOPS:
        a, b = T(args[0]), T(args[1])
        if a is None or b is None:
            return None
        return tt_map(k, BINOPS[name], a, b)
    if name == 'not':
        a = T(args[0])
        return None if a is None else [gnot(x) for x in a]
    if name == 'ite':
        a, b, c = T(args[0]), T(args[1]), T(args[2])
        if a is None or b is None or c is None:
            return None
        return tt_ite(a, b, c)
    if name == 'mk_const':
        return [args[0]] * (1 << k)
    if name == 'var':
        sel = _sym_sel(w, args[0])
        if sel is None:
            return None
        return [gor(*[gand(sel[i], sg[i]) for i in range(k)]) for sg in all_assignments(k)]
    if name == 'exists_impl':
        s = args[0].val if isinstance(args[0], SRef) else args[0]
        sel = _sym_sel(w, s)
        a = T(args[1])
        if sel is None or a is None:
            return None
        exp = list(a)
        for i in range(k):
            q = tt_exists(a, k, i)
            exp = [gite(sel[i], q[j], exp[j]) for j in range(1 << k)]
        return exp
    if name in ('exists', 'all'):
        vs = args[0]
        a = T(args[1])
        if a is None or not isinstance(vs, Seq):
            return None
        sels = [_sym_sel(w, v) for v in vs.items]
        if any(x is None for x in sels):
            return None
        exp = list(a)
        for i in range(k):
            qi = gor(*[sl[i] for sl in sels])
            q = tt_exists(exp, k, i) if name == 'exists' else tt_forall(exp, k, i)
            exp = [gite(qi, q[j], exp[j]) for j in range(1 << k)]
        return exp
    if name in ('aln', 'amn', 'exn'):
        tts = _seq_tts(w, args[0])
        if tts is None:
            return None
        n = _bv64(args[1])
        out = []
        for j in range(1 << k):
            cnt = count_bv([t[j] for t in tts])
            d = n - cnt      # exactly what the code computes (wrapping in release builds)
            out.append(_simp(d <= 0 if name == 'aln' else (d >= 0 if name == 'amn' else d == 0)))
        return out
    if name == 'cmp_count':
        tts = _seq_tts(w, args[0])
        if tts is None:
            return None
        n = _bv64(args[1])
        out = []
        for j in range(1 << k):
            cnt = count_bv([t[j] for t in tts])
            v = _closure_bool(I, fr, args[2], z3.simplify(n - cnt))
            if v is None:
                return None
            out.append(v)
        return out
    if name in ('count_leq', 'count_lt', 'count_geq', 'count_gt', 'count_eq', 'count_leq_recursive', 'count_geq_recursive', 'cmp_count_compare'):
        ta, tb = _seq_tts(w, args[0]), _seq_tts(w, args[1])
        if ta is None or tb is None:
            return None
        off = 0
        kind = name
        if name in ('count_leq_recursive', 'count_geq_recursive', 'cmp_count_compare'):
            off = args[2]
            if not isinstance(off, int):
                return None
            if name == 'cmp_count_compare':
                f = args[3]
                if not isinstance(f, FnItem):
                    return None
                fn = f.path.split('::')[-1]
                if fn not in ('aln', 'amn'):
                    return None
                kind = 'count_leq_recursive' if fn == 'aln' else 'count_geq_recursive'
        out = []
        for j in range(1 << k):
            ca = count_bv([t[j] for t in ta])
            cb = count_bv([t[j] for t in tb])
            # count_leq_recursive(a,b,n): aln(b, n + #a)  <=>  #b >= n + #a ; count_geq_recursive: amn(b, n + #a) <=> #b <= n + #a
            if kind == 'count_leq_recursive':
                e = cb >= ca + off
            elif kind == 'count_geq_recursive':
                e = cb <= ca + off
            else:
                e = {'count_leq': ca <= cb, 'count_lt': ca < cb, 'count_geq': ca >= cb, 'count_gt': ca > cb, 'count_eq': ca == cb}[kind]
            out.append(_simp(e))
        return out
    return None


def _simp(e):
    if isinstance(e, bool):
        return e
    e = z3.simplify(e)
    return True if z3.is_true(e) else (False if z3.is_false(e) else e)


def install_summaries(I, w, names, under_test=None, inductive=False):
    used = I.cfg.setdefault('summaries_used', {})

    def make(name):
        def hook(I2, fr, args):
            # args[0] is &self
            if name == under_test:
                if not inductive:
                    return NotImplemented
                # only recursive calls, and only on structurally smaller arguments
                tops = [a for (fn, a) in I2.call_stack if fn == ('BDDEnv', None, name)]
                if not tops:
                    return NotImplemented
                top = tops[0]
                if not _smaller(args[1:], top[1:]):
                    raise EngineError('recursive call of %s on arguments that are not sub-diagrams (no induction measure)' % name)
            tt = contract_tt(w, name, args[1:], I2, fr)
            if tt is None:
                return NotImplemented
            used[name] = used.get(name, 0) + 1
            res = w.canon(tt)
            if name in ('cmp_count', 'aln', 'amn', 'exn') and I2.cfg['overflow_checks']:
                # dev profile: the callee panics exactly when n - len underflows i64 (its chain of `n - 1`)
                tts = _seq_tts(w, args[1])
                n, L = args[2], len(tts)
                if isinstance(n, int):
                    bad = n - L < INT64_MIN
                else:
                    bad = z3.Not(z3.BVSubNoUnderflow(n, z3.BitVecVal(L, 64), True)) if L else False
                if not g_false(bad):
                    return Outs([Outcome('panic', bad, None, None, 'attempt to subtract with overflow (callee contract) @' + name),
                                 Outcome('ret', gnot(bad), res, None)])
            return res
        return hook
    for n in names:
        I.hooks[('BDDEnv', None, n)] = make(n)


def _children(v):
    x = unrc(v) if isinstance(v, (RcV, SRef)) else None
    if isinstance(x, Adt) and x.ty == 'BDD' and 2 in x.alts:
        t, s, f = x.alts[2][1]
        return [t, f]
    return []


def _smaller(args, top):
    strict = False
    for a, t in zip(args, top):
        sa = a.val if isinstance(a, SRef) else a
        st = t.val if isinstance(t, SRef) else t
        if isinstance(sa, Seq) and isinstance(st, Seq) and len(sa.items) < len(st.items):
            return True
    tops = [a for a in top if isinstance(a, RcV)]
    kids = [c for a in tops for c in _children(a)]
    for a in args:
        if not isinstance(a, RcV):
            continue
        if any(a is c for c in kids):
            strict = True
        elif any(a is t for t in tops):
            pass
        else:
            return False
    return strict


# ------------------------------------------------------------------------------------------------ generic op unit

class OpUnit:
    """one public operation on symbolic canonical operands, with its truth-table oracle"""

    def __init__(self, op, k, **kw):
        self.op = op
        self.k = k
        self.kw = kw
        self.queries = []
        self.cex = None

    # subclasses / specs fill these
    def build(self, I, w):
        """-> (method name, args after &self, expected tt or None, extra)"""
        raise NotImplementedError


def run_op_unit(spec_name, k, opts):
    """worker entry: returns result dict"""
    spec = SPECS[spec_name]
    I = load('lib', opts.get('config'))
    if opts.get('mutate'):
        apply_mir_mutation(I, opts['mutate'])
    w = world_for(k, opts.get('ids'), opts.get('kind', 'named'))
    env, mem = table_env(I, opts.get('table_mode'))
    b = spec(I, w, k, opts)
    if opts.get('summaries') or opts.get('inductive'):
        install_summaries(I, w, list(opts.get('summaries', ())) + ([b['method']] if opts.get('inductive') else []),
                          under_test=b['method'], inductive=bool(opts.get('inductive')))
    outs = I.run('BDDEnv', None, b['method'], [mk_sref(env)] + b['args'], mem)
    rets, pc, pmsgs = outcome_split(outs)
    res = dict(queries=[], spec=spec_name, k=k, method=b['method'], inductive=bool(opts.get('inductive')))
    assumptions = list(w.constraints) + list(b.get('assume', []))
    timeout = opts.get('timeout', 600)
    want = opts.get('obligations', ('struct', 'sem', 'panic', 'wf'))
    cex = None

    def ask(name, neg, expect='unsat'):
        nonlocal cex
        q = decide(name, assumptions, neg, timeout_s=timeout)
        q['expect'] = expect
        model = q.pop('model', None)
        res['queries'].append(q)
        if q['result'] == 'sat' and expect == 'unsat' and cex is None:
            cex = dict(obligation=name, case=b['case'](model), spec=spec_name, k=k)
        if q['result'] not in ('sat', 'unsat'):
            res['status'] = 'inconclusive'
            res['error'] = 'solver answered %s on %s/%s' % (q['result'], spec_name, name)
        return q

    # vacuity witness: the assumptions are satisfiable
    if opts.get('witness', True):
        ask('assumptions-satisfiable', True, expect='sat')
    # panic freedom (inside the documented precondition)
    allowed_panic = b.get('allowed_panic', False)
    if 'panic' in want:
        ask('no-panic', gand(pc, gnot(allowed_panic)))
    if len(rets) > 1:
        raise EngineError('%s: %d unmerged return outcomes' % (spec_name, len(rets)))
    if not rets:
        if not b.get('may_diverge'):
            raise EngineError('%s: no return outcome' % spec_name)
    else:
        r = rets[0]
        rv = r.value
        live = gand(r.guard, gnot(allowed_panic))
        if b.get('expected') is not None:
            exp_tt = b['expected']
            if 'struct' in want:
                exp = w.canon(exp_tt)
                ask('result == canonical diagram of the specified function', gand(live, gnot(Veq().eq(rv, exp))))
            if 'sem' in want:
                sem = Sem(w)
                bad = False
                for sg in all_assignments(k):
                    bad = gor(bad, gnot(beq(sem.eval(rv, sg), exp_tt[tt_index(k, sg)])))
                ask('pointwise value == specified function (all %d assignments)' % (1 << k), gand(live, bad))
        if 'wf' in want and not b.get('wf_skip'):
            sem = Sem(w)
            ask('result ordered and reduced, ids within operands', gand(live, gnot(sem.wf(rv))))
        for name, neg in b.get('extra', lambda rv: [])(rv):
            ask(name, gand(live, neg))
        # preservation of the table invariant: every insert(k, v) has k == *v
        if 'table' in want and I.insert_obligations:
            ve = Veq()
            bad = gor(*[gnot(ve.eq(kx, vx)) for kx, vx in I.insert_obligations])
            ask('table invariant preserved by every insert (key == *value)', bad)
    res.update(interp_summary(I))
    res['summaries_used'] = I.cfg.get('summaries_used', {})
    res['cex'] = cex
    res['sample'] = dict(unit='%s k=%d' % (spec_name, k), function='BDDEnv::' + b['method'], bound=b.get('bound', 'k=%d' % k),
                         callees_replaced_by_contract=res['summaries_used'], induction_step=bool(opts.get('inductive')),
                         obligations=[q['name'] for q in res['queries']], assumptions=[str(a)[:80] for a in b.get('assume', [])][:4])
    return res


def apply_mir_mutation(I, mut):
    """self-test: textual mutation of one MIR statement of a function.  The function item is deep-copied first:
    parsed items are shared between the units a worker process runs, and a mutated body must not leak into them."""
    import copy
    import hashlib
    fn, old, new = mut
    # A self-test is calibrated on one version of the function.  If the function's MIR differs from that version (the
    # tree under test refactored it), the textual mutation may hit other code or produce an equivalent mutant: the
    # self-test then says nothing and is reported as not applicable instead of "mutant not detected".
    fpdir = os.path.join(os.path.dirname(os.path.abspath(__file__)), 'selftest_fp')
    key = json.dumps([fn, old, new])
    fpfile = os.path.join(fpdir, hashlib.sha1(key.encode()).hexdigest()[:16] + '.json')
    body = hashlib.sha256('\n'.join('\n'.join(b.raw) for it in I.items if it.kind == 'fn' and it.last == fn for _, b in sorted(it.blocks.items())).encode()).hexdigest()[:24]
    if os.path.exists(fpfile):
        if json.load(open(fpfile)).get('body') != body:
            raise Unsupported('self-test mutation pattern not found: the MIR of `%s` differs from the version this self-test was calibrated on' % fn)
    elif os.environ.get('VERIF_CALIBRATE'):
        os.makedirs(fpdir, exist_ok=True)
        json.dump({'key': [fn, old, new], 'body': body}, open(fpfile, 'w'))
    hit = False
    for idx, it in enumerate(I.items):
        if it.kind == 'fn' and it.last == fn and not hit:
            for b in it.blocks.values():
                if b.cleanup:
                    continue
                if any(old in s for s in b.raw):
                    it2 = copy.deepcopy(it)
                    for b2 in it2.blocks.values():
                        for i, s in enumerate(b2.raw):
                            if old in s and not hit and not b2.cleanup:
                                b2.raw[i] = s.replace(old, new, 1)
                                b2.stmts = None
                                b2.term = None
                                hit = True
                    I.items = list(I.items)
                    I.items[idx] = it2
                    I.by_name[it2.name] = it2
                    if getattr(it2, 'key', None) is not None and I.by_key.get(it2.key) is it:
                        I.by_key[it2.key] = it2
                    for cid, ci in list(I.by_closure.items()):
                        if ci is it:
                            I.by_closure[cid] = it2
                    break
    if not hit:
        raise Unsupported('self-test mutation pattern not found: %s in %s' % (old, fn))


# ------------------------------------------------------------------------------------------------ specs

def _case(op, w, k, names, extra=None):
    def mk(model):
        model = model or {}
        c = dict(kind='op', op=op, k=k, ids=concrete_ids(model, w), tts=[concrete_tt(model, n, k) for n in names])
        c['extra'] = extra(model, c) if extra else []
        return c
    return mk


def spec_binop(op):
    def f(I, w, k, opts):
        A, B = w.tt('a'), w.tt('b')
        alias = opts.get('alias')
        if alias:
            B = A
        return dict(method=op, args=[w.canon(A), w.canon(B)], expected=tt_map(k, BINOPS[op], A, B),
                    case=_case(op, w, k, ['a', 'a'] if alias else ['a', 'b']))
    return f


def spec_not(I, w, k, opts):
    A = w.tt('a')
    return dict(method='not', args=[w.canon(A)], expected=[gnot(x) for x in A], case=_case('not', w, k, ['a']))


def spec_ite(I, w, k, opts):
    A, B, C = w.tt('a'), w.tt('b'), w.tt('c')
    return dict(method='ite', args=[w.canon(A), w.canon(B), w.canon(C)], expected=tt_ite(A, B, C), case=_case('ite', w, k, ['a', 'b', 'c']))


def spec_var(I, w, k, opts):
    s, sel = any_symbol(w, 's' + opts.get('sfx', ''))
    exp = []
    for sg in all_assignments(k):
        exp.append(gor(*[gand(sel[i], sg[i]) for i in range(k)]))
    return dict(method='var', args=[s], expected=exp,
                case=_case('var', w, k, [], lambda m, c: [str(c['ids'][sel_index(m, 's' + opts.get('sfx', ''), k)])]))


def spec_const(I, w, k, opts):
    b = z3.Bool('cb' + opts.get('sfx', ''))
    return dict(method='mk_const', args=[b], expected=[b] * (1 << k),
                case=_case('const', w, k, [], lambda m, c: ['1' if m.get('cb' + opts.get('sfx', '')) else '0']))


def spec_exists_impl(I, w, k, opts):
    A = w.tt('a')
    s, sel = any_symbol(w, 's' + opts.get('sfx', ''))
    exp = list(A)
    for i in range(k):
        q = tt_exists(A, k, i)
        exp = [gite(sel[i], q[j], exp[j]) for j in range(1 << k)]
    return dict(method='exists_impl', args=[mk_sref(s), w.canon(A)], expected=exp,
                case=_case('exists_impl', w, k, ['a'], lambda m, c: [str(c['ids'][sel_index(m, 's' + opts.get('sfx', ''), k)])]))


def spec_quant(op, nv):
    def f(I, w, k, opts):
        A = w.tt('a')
        vs, sels = [], []
        for j in range(nv):
            s, sel = any_symbol(w, 'v%d%s' % (j, opts.get('sfx', '')))
            vs.append(s)
            sels.append(sel)
        exp = list(A)
        for i in range(k):
            qi = gor(*[sels[j][i] for j in range(nv)])
            q = tt_exists(exp, k, i) if op == 'exists' else tt_forall(exp, k, i)
            exp = [gite(qi, q[j], exp[j]) for j in range(1 << k)]
        return dict(method=op, args=[Seq(vs), w.canon(A)], expected=exp, bound='k=%d, |V|=%d (each element any atom)' % (k, nv),
                    case=_case(op, w, k, ['a'], lambda m, c: [','.join(str(c['ids'][sel_index(m, 'v%d%s' % (j, opts.get('sfx', '')), k)]) for j in range(nv)) or '-']))
    return f


def spec_count_const(op, nb):
    """aln/amn/exn(branches, n) with nb branches (arbitrary functions, may coincide) and unconstrained i64 n"""
    def f(I, w, k, opts):
        tts = [w.tt('b%d' % j) for j in range(nb)]
        n = z3.BitVec('n' + opts.get('sfx', ''), 64)
        exp = []
        for j in range(1 << k):
            cnt = count_bv([t[j] for t in tts])
            # count in 0..nb; compare as mathematical integers: n is i64
            if op == 'aln':
                e = cnt >= n      # signed compare, cnt small non-negative
            elif op == 'amn':
                e = cnt <= n
            else:
                e = cnt == n
            exp.append(e)
        # documented precondition: n - len and n + len do not overflow i64
        pre = z3.And(n >= z3.BitVecVal(INT64_MIN + nb, 64), n <= z3.BitVecVal(INT64_MAX - nb, 64))
        return dict(method=op, args=[mk_sref(Seq([w.canon(t) for t in tts])), n], expected=exp, assume=[pre],
                    bound='k=%d, %d operands, n any i64 with n-len, n+len in range' % (k, nb),
                    case=_case(op, w, k, ['b%d' % j for j in range(nb)], lambda m, c: [str(_signed(m.get('n' + opts.get('sfx', ''), 0)))]))
    return f


def closure_of(I, owner):
    """the closure value `|n| ...` defined inside BDDEnv::<owner> (aln / amn / exn)"""
    for cid, it in I.by_closure.items():
        if it.last == owner + '::{closure#0}':
            return Closure(cid, ())
    raise Unsupported('no closure found in ' + owner)


def spec_cmp_count(owner, nb):
    """cmp_count(branches, n, <the comparator closure of aln/amn/exn>) -- the function that does the work"""
    inner = spec_count_const(owner, nb)

    def f(I, w, k, opts):
        b = inner(I, w, k, opts)
        b['method'] = 'cmp_count'
        b['args'] = b['args'] + [closure_of(I, owner)]
        return b
    return f


def spec_cmp_count_compare(op, na, nb):
    inner = spec_count_lists(op, na, nb)
    start = {'count_leq': (0, 'aln'), 'count_lt': (1, 'aln'), 'count_geq': (0, 'amn'), 'count_gt': (-1, 'amn')}[op]

    def f(I, w, k, opts):
        b = inner(I, w, k, opts)
        b['method'] = 'cmp_count_compare'
        b['args'] = b['args'] + [start[0], FnItem('bdd::BDDEnv::<S>::' + start[1])]
        return b
    return f


def spec_count_rec(which, na, nb, n):
    """count_leq_recursive / count_geq_recursive (a, b, n) for the two start values the public functions use"""
    def f(I, w, k, opts):
        ta = [w.tt('l%d' % j) for j in range(na)]
        tb = [w.tt('r%d' % j) for j in range(nb)]
        exp = []
        for j in range(1 << k):
            ca = count_bv([t[j] for t in ta], 8)
            cb = count_bv([t[j] for t in tb], 8)
            nn = z3.BitVecVal(n, 8)
            # leq: aln(b, n + #a) <=> #b >= n + #a ; geq: amn(b, n + #a) <=> #b <= n + #a   (signed 8-bit is ample here)
            exp.append(_simp(cb >= ca + nn if which == 'count_leq_recursive' else cb <= ca + nn))
        op = {('count_leq_recursive', 0): 'count_leq', ('count_leq_recursive', 1): 'count_lt',
              ('count_geq_recursive', 0): 'count_geq', ('count_geq_recursive', -1): 'count_gt'}[(which, n)]
        return dict(method=which, args=[mk_sref(Seq([w.canon(t) for t in ta])), mk_sref(Seq([w.canon(t) for t in tb])), n], expected=exp,
                    bound='k=%d, |a|=%d, |b|=%d, n=%d' % (k, na, nb, n),
                    case=_case(op, w, k, ['l%d' % j for j in range(na)] + ['r%d' % j for j in range(nb)], lambda m, c: [str(na)]))
    return f


def _signed(v):
    return v - (1 << 64) if v >= (1 << 63) else v


def spec_count_lists(op, na, nb):
    def f(I, w, k, opts):
        ta = [w.tt('l%d' % j) for j in range(na)]
        tb = [w.tt('r%d' % j) for j in range(nb)]
        exp = []
        for j in range(1 << k):
            ca = count_bv([t[j] for t in ta], 8)
            cb = count_bv([t[j] for t in tb], 8)
            e = {'count_leq': z3.ULE(ca, cb), 'count_lt': z3.ULT(ca, cb), 'count_geq': z3.UGE(ca, cb), 'count_gt': z3.UGT(ca, cb),
                 'count_eq': ca == cb}[op]
            e = z3.simplify(e)
            exp.append(True if z3.is_true(e) else (False if z3.is_false(e) else e))
        return dict(method=op, args=[mk_sref(Seq([w.canon(t) for t in ta])), mk_sref(Seq([w.canon(t) for t in tb]))], expected=exp,
                    bound='k=%d, |a|=%d, |b|=%d' % (k, na, nb),
                    case=_case(op, w, k, ['l%d' % j for j in range(na)] + ['r%d' % j for j in range(nb)], lambda m, c: [str(na)]))
    return f


def is_leaf_false(v):
    v = unrc(v)
    return v.alts[0][0] if 0 in v.alts else False


def unrc(v):
    while isinstance(v, (RcV, SRef, BoxV)):
        v = v.val if isinstance(v, SRef) else v.inner
    return v


def cube_shape(v, memo=None):
    """v is True-leaf or a Choice with exactly one False-leaf child and the other child cube-shaped"""
    memo = {} if memo is None else memo
    v = unrc(v)
    r = memo.get(id(v))
    if r is not None:
        return r[0]
    res = False
    if 1 in v.alts:
        res = gor(res, v.alts[1][0])
    if 2 in v.alts:
        g, (t, s, f) = v.alts[2]
        tf, ff = is_leaf_false(t), is_leaf_false(f)
        res = gor(res, gand(g, gor(gand(tf, gnot(ff), cube_shape(f, memo)), gand(ff, gnot(tf), cube_shape(t, memo)))))
    memo[id(v)] = (res, v)
    return res


def spec_model(I, w, k, opts):
    A = w.tt('a')
    sat = gor(*A)

    def extra(rv):
        sem = Sem(w)
        out = []
        out.append(('model is the false leaf iff f is unsatisfiable', gnot(beq(is_leaf_false(rv), gnot(sat)))))
        out.append(('model of a satisfiable f is one conjunction of literals', gand(sat, gnot(cube_shape(rv)))))
        bad = False
        for sg in all_assignments(k):
            bad = gor(bad, gand(sem.eval(rv, sg), gnot(A[tt_index(k, sg)])))
        out.append(('every assignment satisfying the model satisfies f', bad))
        sup = sem.support(rv)
        out.append(('model mentions only variables f depends on', gor(*[gand(sup[i], gnot(tt_depends(A, k, i))) for i in range(k)])))
        return out
    return dict(method='model', args=[w.canon(A)], expected=None, extra=extra, case=_case('model', w, k, ['a']))


def spec_infer(I, w, k, opts):
    """infer(m, v) for m = any cube (built as canonical diagram of a symbolic cube) and any atom v"""
    # cube: for each variable: absent / positive / negative
    pos = [z3.Bool('cp%d' % i) for i in range(k)]
    neg = [z3.Bool('cn%d' % i) for i in range(k)]
    # a variable required both true and false gives the contradictory cube, i.e. the false leaf (the model of an
    # unsatisfiable formula), which forces every variable vacuously
    tt = []
    for sg in all_assignments(k):
        tt.append(gand(*[gand(gor(gnot(pos[i]), sg[i]), gor(gnot(neg[i]), gnot(sg[i]))) for i in range(k)]))
    s, sel = any_symbol(w, 's' + opts.get('sfx', ''))
    forced = True
    for j, sg in enumerate(all_assignments(k)):
        vtrue = gor(*[gand(sel[i], sg[i]) for i in range(k)])
        forced = gand(forced, gor(gnot(tt[j]), vtrue))

    def extra(rv):
        a, b = rv.alts[0][1]
        return [('infer answers (true,true) exactly when the cube forces v true', gnot(beq(gand(a, b), forced)))]

    def case(model):
        model = model or {}
        ids = concrete_ids(model, w)
        bits = ''
        for sg in all_assignments(k):
            ok = all((not model.get('cp%d' % i) or sg[i]) and (not model.get('cn%d' % i) or not sg[i]) for i in range(k))
            bits += '1' if ok else '0'
        return dict(kind='op', op='infer', k=k, ids=ids, tts=[bits], extra=[str(ids[sel_index(model, 's' + opts.get('sfx', ''), k)])])
    return dict(method='infer', args=[w.canon(tt), s], expected=None, extra=extra, case=case, wf_skip=True)


def filter_value(name='flt'):
    sel, cons = one_hot(name, 3)
    # TruthTableEntry: True=0, False=1, Any=2
    return Adt('TruthTableEntry', {0: (sel[0], ()), 1: (sel[1], ()), 2: (sel[2], ())}), sel, cons


def spec_retain(I, w, k, opts):
    A = w.tt('a')
    flt, sel, cons = filter_value('flt' + opts.get('sfx', ''))
    w.constraints.extend(cons)
    f = w.canon(A)

    def extra(rv):
        sem = Sem(w)
        bad_t = bad_f = False
        for sg in all_assignments(k):
            a = A[tt_index(k, sg)]
            r = sem.eval(rv, sg)
            bad_t = gor(bad_t, gand(a, gnot(r)))
            bad_f = gor(bad_f, gand(r, gnot(a)))
        sup = sem.support(rv)
        return [('filter True: f implies the result', gand(sel[0], bad_t)),
                ('filter False: the result implies f', gand(sel[1], bad_f)),
                ('filter Any: the result is f itself', gand(sel[2], gnot(Veq().eq(rv, f)))),
                ('result mentions only variables f depends on', gor(*[gand(sup[i], gnot(tt_depends(A, k, i))) for i in range(k)]))]
    return dict(method='retain_choice_bottom_up', args=[f, flt], expected=None, extra=extra,
                case=_case('retain', w, k, ['a'], lambda m, c: [['True', 'False', 'Any'][sel_index(m, 'flt' + opts.get('sfx', ''), 3)]]))


def spec_clean(I, w, k, opts):
    A = w.tt('a')
    I.cfg['table_mode'] = 'hit'     # clean/find require their argument to be in the table (documented: "make sure to initialize")
    return dict(method='clean', args=[w.canon(A)], expected=list(A), case=_case('clean', w, k, ['a']))


SPECS = {}
for _op in BINOPS:
    SPECS[_op] = spec_binop(_op)
SPECS['not'] = spec_not
SPECS['ite'] = spec_ite
SPECS['var'] = spec_var
SPECS['const'] = spec_const
SPECS['exists_impl'] = spec_exists_impl
for _n in range(0, 4):
    SPECS['exists/%d' % _n] = spec_quant('exists', _n)
    SPECS['all/%d' % _n] = spec_quant('all', _n)
for _op in ('aln', 'amn', 'exn'):
    for _n in range(0, 6):
        SPECS['%s/%d' % (_op, _n)] = spec_count_const(_op, _n)
for _op in ('count_leq', 'count_lt', 'count_geq', 'count_gt', 'count_eq'):
    for _a in range(0, 4):
        for _b in range(0, 4):
            SPECS['%s/%d,%d' % (_op, _a, _b)] = spec_count_lists(_op, _a, _b)
for _op in ('aln', 'amn', 'exn'):
    for _n in range(0, 6):
        SPECS['cmp_count[%s]/%d' % (_op, _n)] = spec_cmp_count(_op, _n)
for _op in ('count_leq', 'count_lt', 'count_geq', 'count_gt'):
    for _a in range(0, 4):
        for _b in range(0, 4):
            SPECS['cmp_count_compare[%s]/%d,%d' % (_op, _a, _b)] = spec_cmp_count_compare(_op, _a, _b)
for _w, _ns in (('count_leq_recursive', (0, 1)), ('count_geq_recursive', (0, -1))):
    for _n in _ns:
        for _a in range(0, 4):
            for _b in range(0, 4):
                SPECS['%s[%d]/%d,%d' % (_w, _n, _a, _b)] = spec_count_rec(_w, _a, _b, _n)
SPECS['model'] = spec_model
SPECS['infer'] = spec_infer
SPECS['retain'] = spec_retain
SPECS['clean'] = spec_clean


# ------------------------------------------------------------------------------------------------ replay of op cases

def op_line(case):
    ids = ','.join(str(i) for i in case['ids']) if case['ids'] else '-'
    return ('op %s %d %s %d %s %s' % (case['op'], case['k'], ids, len(case['tts']), ' '.join(case['tts']), ' '.join(case.get('extra', [])))).strip()


def py_tt(s):
    return [c == '1' for c in s]


def expected_concrete(case):
    """reference semantics on concrete truth tables (python), mirrors the symbolic oracles"""
    op, k = case['op'], case['k']
    tts = [py_tt(t) for t in case['tts']]
    ids = case['ids']
    ex = case.get('extra', [])
    n = 1 << k
    if op in BINOPS:
        return [bool(BINOPS[op](a, b)) for a, b in zip(tts[0], tts[1])]
    if op == 'not':
        return [not a for a in tts[0]]
    if op == 'ite':
        return [(b if a else c) for a, b, c in zip(*tts)]
    if op == 'var':
        i = ids.index(int(ex[0]))
        return [bool((j >> (k - 1 - i)) & 1) for j in range(n)]
    if op == 'const':
        return [ex[0] == '1'] * n
    if op in ('exists', 'all', 'exists_impl'):
        vs = [] if (not ex or ex[0] == '-') else [int(x) for x in ex[0].split(',')]
        tt = list(tts[0])
        for v in vs:
            if v in ids:
                i = ids.index(v)
                tt = [bool(x) for x in (tt_exists(tt, k, i) if op != 'all' else tt_forall(tt, k, i))]
        return tt
    if op in ('aln', 'amn', 'exn'):
        nn = int(ex[0])
        out = []
        for j in range(n):
            c = sum(1 for t in tts if t[j])
            out.append(c >= nn if op == 'aln' else (c <= nn if op == 'amn' else c == nn))
        return out
    if op.startswith('count_'):
        na = int(ex[0])
        out = []
        for j in range(n):
            ca = sum(1 for t in tts[:na] if t[j])
            cb = sum(1 for t in tts[na:] if t[j])
            out.append({'count_leq': ca <= cb, 'count_lt': ca < cb, 'count_geq': ca >= cb, 'count_gt': ca > cb, 'count_eq': ca == cb}[op])
        return out
    if op in ('clean', 'find', 'simplify'):
        return tts[0]
    return None


def judge_op(case, ans):
    """-> (violates: bool, description) for a driver answer on an op case"""
    d = parse_driver(ans)
    op, k = case['op'], case['k']
    if d['status'] == 'panic':
        return True, 'panic: ' + ans[6:120]
    if d['status'] != 'ok':
        return None, 'driver: ' + ans[:120]
    exp = expected_concrete(case)
    if op == 'infer':
        m = py_tt(case['tts'][0])
        v = case['ids'].index(int(case['extra'][0]))
        forced = all((not m[j]) or bool((j >> (k - 1 - v)) & 1) for j in range(1 << k))
        got = d['pos'][1:] if d.get('pos') else []
        both = (got == ['true', 'true'])
        return (both != forced), 'infer returned %s, forced=%s' % (got, forced)
    if d.get('wf') != '1':
        return True, 'result not ordered/reduced: ' + d['pos'][0]
    if d.get('unchanged') == '0':
        return True, 'operand changed'
    got = py_tt(d['tt'])
    if exp is not None:
        if got != exp:
            return True, 'result function %s, expected %s' % (d['tt'], ''.join('1' if x else '0' for x in exp))
        return False, 'agrees'
    f = py_tt(case['tts'][0])
    if op == 'model':
        if not any(f):
            return (d['pos'][0] != 'F'), 'model of unsat f is ' + d['pos'][0]
        if d['pos'][0] == 'F':
            return True, 'model of satisfiable f is the false leaf'
        if any(g and not x for g, x in zip(got, f)):
            return True, 'model %s does not imply f %s' % (d['tt'], case['tts'][0])
        # cube shape: number of satisfying assignments is a power of two consistent with literal count: check by structure
        dia = d['pos'][0]
        if not _is_cube(dia):
            return True, 'model is not a single conjunction of literals: ' + dia
        for i in range(k):
            dep_f = any(f[j] != f[j ^ (1 << (k - 1 - i))] for j in range(1 << k))
            dep_m = any(got[j] != got[j ^ (1 << (k - 1 - i))] for j in range(1 << k))
            if dep_m and not dep_f:
                return True, 'model mentions a variable f does not depend on'
        return False, 'agrees'
    if op == 'retain':
        flt = case['extra'][0]
        if flt == 'True' and any(x and not g for g, x in zip(got, f)):
            return True, 'retain(True): f does not imply result'
        if flt == 'False' and any(g and not x for g, x in zip(got, f)):
            return True, 'retain(False): result does not imply f'
        if flt == 'Any' and got != f:
            return True, 'retain(Any) changed f'
        for i in range(k):
            dep_f = any(f[j] != f[j ^ (1 << (k - 1 - i))] for j in range(1 << k))
            dep_m = any(got[j] != got[j ^ (1 << (k - 1 - i))] for j in range(1 << k))
            if dep_m and not dep_f:
                return True, 'result mentions a variable f does not depend on'
        return False, 'agrees'
    return None, 'no judge for ' + op


def _is_cube(dia):
    """serialised diagram '(id_T_F)' style: every node has exactly one F child"""
    s = dia.replace('_', ' ')
    pos = [0]

    def parse():
        if s[pos[0]] == 'T':
            pos[0] += 1
            return 'T'
        if s[pos[0]] == 'F':
            pos[0] += 1
            return 'F'
        assert s[pos[0]] == '('
        pos[0] += 1
        j = s.index(' ', pos[0])
        vid = int(s[pos[0]:j])
        pos[0] = j + 1
        t = parse()
        pos[0] += 1
        f = parse()
        pos[0] += 1
        return (vid, t, f)
    t = parse()

    def cube(n):
        if n == 'T':
            return True
        if n == 'F':
            return False
        _, a, b = n
        return (a == 'F') != (b == 'F') and cube(b if a == 'F' else a)
    return cube(t)


# ------------------------------------------------------------------------------------------------ derived PartialEq / Hash of BDD (C02 b)

def unit_bdd_eq(k, opts):
    """the crate's derived PartialEq on two canonical diagrams returns true iff they denote the same function"""
    I = load('lib')
    if opts.get('mutate'):
        apply_mir_mutation(I, opts['mutate'])
    w = world_for(k)
    A, B = w.tt('a'), w.tt('b')
    a, b = w.canon(A), w.canon(B)
    it = I.by_key.get(('BDD', 'PartialEq', 'eq'))
    if it is None:
        raise Unsupported('no PartialEq impl for BDD in the crate')
    outs = I.call_item(it, [mk_sref(a.inner), mk_sref(b.inner)], {})
    rets, pc, _ = outcome_split(outs)
    same = gand(*[beq(x, y) for x, y in zip(A, B)])
    res = dict(queries=[], method='<BDD as PartialEq>::eq')
    bad = False
    for r in rets:
        bad = gor(bad, gand(r.guard, gnot(beq(r.value, same))))
    for name, neg in (('no panic', pc), ('result == canonical diagram: derived == on canonical diagrams is true iff the functions are equal', bad)):
        q = decide(name, w.constraints, neg, timeout_s=opts.get('timeout', 250))
        q['expect'] = 'unsat'
        q.pop('model', None)
        res['queries'].append(q)
        if q['result'] != 'unsat':
            res['status'] = 'inconclusive' if q['result'] != 'sat' else 'pass'
            if q['result'] == 'sat':
                res['cex'] = None
                res['eqfail'] = name
    res.update(interp_summary(I))
    res['sample'] = dict(unit='<BDD as PartialEq>::eq on canonical diagrams k=%d' % k, obligation='eq(canon(A), canon(B)) <=> A == B')
    return res


def unit_bdd_hash(k, opts):
    """equal canonical diagrams feed the same sequence of writes to the hasher (Hash consistent with Eq)"""
    I = load('lib')
    w = world_for(k)
    A, B = w.tt('a'), w.tt('b')
    a, b = w.canon(A), w.canon(B)
    it = I.by_key.get(('BDD', 'Hash', 'hash'))
    if it is None:
        raise Unsupported('no Hash impl for BDD in the crate')

    def run(v):
        c = I.new_cell()
        outs = I.call_item(it, [mk_sref(v.inner), MRef(c, ())], {c: Seq(())})
        rets, pc, _ = outcome_split(outs)
        return [(r.guard, r.mem[c]) for r in rets], pc
    ra, pa = run(a)
    rb, pb = run(b)
    same = gand(*[beq(x, y) for x, y in zip(A, B)])
    bad = False
    ve = Veq(lenient=True)
    # a hash that feeds allocation addresses to the hasher cannot agree between two environments holding equal diagrams
    uses_addr = any(isinstance(x, AddrV) for g, sq in ra + rb for x in sq.items)
    for ga, sa in ra:
        for gb, sb in rb:
            bad = gor(bad, gand(ga, gb, gnot(ve.eq(sa, sb))))
    res = dict(queries=[], method='<BDD as Hash>::hash')
    for name, neg in (('no panic', gor(pa, pb)), ('equal functions => equal hasher write sequences', gand(same, bad)),
                      ('the hash does not depend on allocation addresses (equal diagrams of two environments hash equally)', True if uses_addr else False)):
        q = decide(name, w.constraints, neg, timeout_s=opts.get('timeout', 250))
        q['expect'] = 'unsat'
        m = q.pop('model', None)
        res['queries'].append(q)
        if q['result'] == 'sat' and 'allocation addresses' in name:
            m = m or {}
            tt = ''.join('1' if m.get('a_%d' % j) else '0' for j in range(1 << k))
            if '1' not in tt or '0' not in tt:
                tt = '01' * (1 << (k - 1))
            res['cex'] = dict(obligation=name, case=dict(kind='hash2env', k=k, ids=concrete_ids(m, w), tt=tt))
        elif q['result'] == 'sat':
            res['eqfail'] = name
        elif q['result'] != 'unsat':
            res['status'] = 'inconclusive'
    res.update(interp_summary(I))
    res['sample'] = dict(unit='<BDD as Hash>::hash on canonical diagrams k=%d' % k, obligation='A == B  =>  same write sequence (discriminants, symbol ids)')
    return res


def unit_symbol_hash(opts):
    """NamedSymbol: Hash is consistent with Eq - two symbols that compare equal (by the crate's own PartialEq) feed the
    hasher the same writes, whatever their names; needed by the unique table (a lookup must find an equal key)"""
    I = load('lib')
    if opts.get('mutate'):
        apply_mir_mutation(I, opts['mutate'])
    ida, idb = z3.BitVec('ida', 64), z3.BitVec('idb', 64)
    na, nb = z3.String('na'), z3.String('nb')
    a = mk_struct('NamedSymbol', [mk_rc(Str(na)), ida])
    b = mk_struct('NamedSymbol', [mk_rc(Str(nb)), idb])
    eqit = I.by_key.get(('NamedSymbol', 'PartialEq', 'eq'))
    hit = I.by_key.get(('NamedSymbol', 'Hash', 'hash'))
    if eqit is None or hit is None:
        raise Unsupported('NamedSymbol PartialEq / Hash impl not found')
    outs = I.call_item(eqit, [mk_sref(a), mk_sref(b)], {})
    rets, pc, _ = outcome_split(outs)
    iseq = False
    for r in rets:
        iseq = gor(iseq, gand(r.guard, r.value))

    def run(v):
        c = I.new_cell()
        outs = I.call_item(hit, [mk_sref(v), MRef(c, ())], {c: Seq(())})
        rs, p, _ = outcome_split(outs)
        return [(r.guard, r.mem[c]) for r in rs], p
    ra, pa = run(a)
    rb, pb = run(b)
    ve = Veq(lenient=True)
    bad = False
    for ga, sa in ra:
        for gb, sb in rb:
            bad = gor(bad, gand(ga, gb, gnot(ve.eq(sa, sb))))
    res = dict(queries=[], method='<NamedSymbol as Hash>::hash')
    cex = None
    for name, neg in (('no panic', gor(pc, pa, pb)), ('symbols that compare equal hash equally (any names)', gand(iseq, bad))):
        q = decide(name, [z3.Length(na) <= 3, z3.Length(nb) <= 3], neg, timeout_s=120, prefer='z3')
        q['expect'] = 'unsat'
        m = q.pop('model', None)
        res['queries'].append(q)
        if q['result'] == 'sat' and cex is None:
            m = m or {}
            cex = dict(obligation=name, case=dict(kind='symhash', id=m.get('ida', 0), names=[m.get('na', 'a') or 'a', m.get('nb', 'b') or 'b']))
        elif q['result'] not in ('sat', 'unsat'):
            res['status'] = 'inconclusive'
    res.update(interp_summary(I))
    res['cex'] = cex
    res['sample'] = dict(unit='NamedSymbol Hash vs Eq', ids='unknown 64-bit', names='unknown strings', obligation='a == b  =>  same hasher write sequence')
    return res
