#!/usr/bin/env python3
"""C12 - no input makes the parser or the command-line tool panic.

The panic condition accumulated by the symbolic executor (panic_fmt, failed asserts incl. index bounds and arithmetic
overflow, expect/unwrap on None/Err, RefCell double borrows, unreachable!, exceeded loop bound) must be unsatisfiable for:
 * tokenize under the regex contract model: every group, every matched text, numbers of up to 24 digits, orderings;
 * parse_formula on every token sequence up to the bound over the full alphabet;
 * the constructor (new_with_env: extract_vars, sort, raw2free loop) and var_is_free on sketches;
 * eval on sketches (every operator / quantifier / counting kind / 64-bit constant / fixed point that converges), in
   both overflow profiles (dev: overflow checks on; release: wrapping);
 * truth-table / variable-list printing with the ParsedFormula produced by the real constructor, including orderings
   that list names the formula does not use (non-contiguous ids);
 * the whole `main` of src/bin/rsbdd.rs under combinations of -t -v -m -r -c -b -o with the formula a symbolic sketch
   (clap, the file system, the tokenizer and the parser replaced by their contracts: see maincore.py)."""
import sys
from runner import *   # noqa
import props
import bddcore
import parsecore
import tokencore
import evalcore
import c08
import c09
from evalcore import unit_sketch, shapes_one

PID = 'C12'


def main():
    quick = TIER != 'thorough'
    lemma, st = props.units_for('C02', quick)
    jobs = [('<BDD as PartialEq>::eq on canonical diagrams k=3', bddcore.unit_bdd_eq, (3, {}))]
    jobs += parsecore.parser_jobs(quick)[0]
    jobs += tokencore.jobs(quick)
    shapes = list(shapes_one()) + [('fp', ('bin', 'L', 'L')), ('fp', ('cc', ('L', 'L'))), ('q', 1, ('fp', 'L')), ('not', ('cc', ('L', 'L', 'L'))),
                                   ('fp', ('q', 1, ('bin', 'L', 'L'))), ('fp', ('q', 2, 'L')), ('q', 1, ('q', 1, ('bin', 'L', 'L'))), ('fp', ('bin', 'L', ('q', 1, 'L')))]
    for sh in shapes:
        kk = 2 if "'fp'" in repr(sh) and "'cc'" in repr(sh) else 3
        jobs.append(('eval %r k=%d dev profile' % (sh, kk), unit_sketch, (sh, kk, {})))
        if "'cc'" in repr(sh) or "'cv'" in repr(sh):
            jobs.append(('eval %r k=%d release profile (overflow wraps)' % (sh, kk), unit_sketch, (sh, kk, dict(config=dict(overflow_checks=False)))))
    for sh in [('bin', 'L', 'L'), ('q', 2, 'L'), ('fp', 'L'), ('cc', ('L', 'L')), ('q', 1, ('bin', 'L', 'L'))]:
        jobs.append(('constructor %r k=3' % (sh,), c09.unit_constructor, (sh, 3, {})))
    # printing panics ("x is not a free variable") exactly when the evaluated diagram mentions a non-free variable
    for sh in [('fp', ('fp', ('bin', 'L', 'L'))), ('fp', ('fp', 'L')), ('fp', ('q', 1, ('bin', 'L', 'L'))), ('q', 1, ('fp', ('bin', 'L', 'L'))), ('fp', ('bin', 'L', ('fp', 'L')))]:
        jobs.append(('support of eval within free variables %r k=2' % (sh,), c09.unit_free, (sh, 2, {})))
    try:
        import printcore
        jobs += printcore.jobs(quick)
    except ImportError:
        pass
    # the whole main of the binary under combinations of output options (real MIR; see maincore.py)
    import maincore
    jobs += maincore.jobs_nopanic(quick)
    # the Graphviz descriptions (-d / -p): building them must not panic either (the full C14 obligations ride along)
    import dotcore
    import c14
    jobs.append(('BDDGraph description k=1', dotcore.unit_bdd_graph, (1, {})))
    for sh in c14.SHAPES:
        sh2 = 'L' if sh == ('L',) else sh
        jobs.append(('SymbolicParseTree description %r k=2' % (sh2,), dotcore.unit_parse_tree, (sh2, 2, {})))
    rep = run_property(PID, lemma, ['and', 'or', 'not', 'exists', 'all', 'aln', 'amn', 'exn'], [],
                       bounds={'token_sequences': '0..%d tokens over the full alphabet' % (6 if quick else 8), 'number_literals': '<= 24 digits', 'identifier_text': '<= 8 characters',
                               'sketches': len(shapes), 'atoms_k': 3},
                       assumptions=props.COMMON_ASSUME + ['regex engine modelled by its contract (see C08)', 'read_to_string succeeds (invalid UTF-8 is rejected there with an Err: an I/O contract)'],
                       uncovered=['byte-level input and invalid UTF-8 (rejected by read_to_string before the crate sees it)', 'nesting depth 200 / 64 KiB scale', 'clap option parsing itself, real file handling, gnuplot (-g)', 'the rendering of the Graphviz text by the `dot` crate (the crate\'s own node / edge / label code is covered: see C14)',
                                  'non-ASCII digits: the regex class \\d and str::parse are library code outside the model'],
                       extra_jobs=jobs)
    sys.exit(rep.finish())


if __name__ == '__main__':
    main()
