"""FSEM - reference semantics of the rsbdd formula language, written from the README / property text, independent of
the crate.  One implementation serves symbolic sketches (labels are one-hot choices over z3 Booleans) and concrete
trees (labels are python bools): the semantic function only uses the guard combinators.

Tree nodes (python tuples):
  ('leaf', Choice(['var','true','false']), Sym)      ('not', t)          ('bin', Choice(BINOPS), l, r)
  ('ite', c, t, e)      ('q', Choice(['exists','forall']), [Sym..], body)
  ('cc', Choice(CNTOPS), [t..], n)      ('cv', Choice(CNTOPS), [l..], [r..])      ('fp', Sym, init_bool, body)
Sym = Choice over the k atoms (which variable id)."""
import z3
from mirsym.values import gand, gor, gnot, gite, g_true, g_false
from mirsym.harness import beq, all_assignments, tt_index

BIN = ['And', 'Or', 'Xor', 'Nor', 'Nand', 'Implies', 'ImpliesInv', 'Iff']
CNT = ['AtMost', 'LessThan', 'AtLeast', 'MoreThan', 'Exactly']
QK = ['Exists', 'Forall']
LEAF = ['var', 'true', 'false']


class Choice:
    def __init__(self, options, sel, name=None):
        self.options = list(options)
        self.sel = list(sel)
        self.name = name

    @staticmethod
    def symbolic(name, options):
        sel = [z3.Bool('%s_is%d' % (name, i)) for i in range(len(options))]
        return Choice(options, sel, name)

    @staticmethod
    def concrete(options, which):
        return Choice(options, [o == which for o in options])

    def constraints(self):
        sel = [s for s in self.sel if not isinstance(s, bool)]
        if not sel:
            return []
        cons = [z3.Or(*self.sel)]
        for i in range(len(self.sel)):
            for j in range(i + 1, len(self.sel)):
                cons.append(z3.Or(z3.Not(self.sel[i]), z3.Not(self.sel[j])))
        return cons

    def pick(self, model):
        for i, o in enumerate(self.options):
            s = self.sel[i]
            if s is True or (not isinstance(s, bool) and model.get('%s_is%d' % (self.name, i))):
                return o
        return self.options[0]

    def g(self, option):
        if option not in self.options:
            return False
        return self.sel[self.options.index(option)]


def bin_sem(op, a, b):
    return {'And': gand(a, b), 'Or': gor(a, b), 'Xor': gnot(beq(a, b)), 'Nor': gnot(gor(a, b)), 'Nand': gnot(gand(a, b)),
            'Implies': gor(gnot(a), b), 'ImpliesInv': gor(gnot(b), a), 'Iff': beq(a, b)}[op]


def _cof(tt, k, i, val):
    out = []
    bit = 1 << (k - 1 - i)
    for j in range(1 << k):
        out.append(tt[(j | bit) if val else (j & ~bit)])
    return out


def _count_cmp(op, bits_l, rhs):
    """count of true bits compared with rhs: rhs is a list of bits (count) or a natural number n (int / 64-bit term,
    read as unsigned)"""
    nl = len(bits_l)
    # exactly-c indicators for the left count
    def exactly(bits, c):
        # number of true bits == c   (small lists: dynamic programming)
        dp = [True] + [False] * len(bits)
        for b in bits:
            nd = [False] * (len(bits) + 1)
            for m in range(len(bits) + 1):
                if g_false(dp[m]):
                    continue
                nd[m] = gor(nd[m], gand(dp[m], gnot(b)))
                if m + 1 <= len(bits):
                    nd[m + 1] = gor(nd[m + 1], gand(dp[m], b))
            dp = nd
        return dp[c]
    res = False
    if isinstance(rhs, list):
        for a in range(nl + 1):
            ea = exactly(bits_l, a)
            if g_false(ea):
                continue
            for b in range(len(rhs) + 1):
                ok = {'AtMost': a <= b, 'LessThan': a < b, 'AtLeast': a >= b, 'MoreThan': a > b, 'Exactly': a == b}[op]
                if ok:
                    res = gor(res, gand(ea, exactly(rhs, b)))
        return res
    n = rhs
    for a in range(nl + 1):
        ea = exactly(bits_l, a)
        if g_false(ea):
            continue
        if isinstance(n, int):
            ok = {'AtMost': a <= n, 'LessThan': a < n, 'AtLeast': a >= n, 'MoreThan': a > n, 'Exactly': a == n}[op]
        else:
            A = z3.BitVecVal(a, 64)
            ok = {'AtMost': z3.ULE(A, n), 'LessThan': z3.ULT(A, n), 'AtLeast': z3.UGE(A, n), 'MoreThan': z3.UGT(A, n), 'Exactly': A == n}[op]
        res = gor(res, gand(ea, ok))
    return res


class Sem:
    def __init__(self, k, fp_bound):
        self.k = k
        self.U = fp_bound
        self.nonconv = False     # condition under which some fixed point did not stabilise within U steps

    def sem(self, t, subst=None):
        """truth table (2^k guards, variable 0 most significant) of tree t; subst[i] = (active_guard, tt) overrides the
        meaning of atom i (fixed-point variable bound to the current iterate)"""
        k = self.k
        subst = subst or [None] * k
        kind = t[0]
        if kind == 'leaf':
            ch, sym = t[1], t[2]
            out = []
            for j, sg in enumerate(all_assignments(k)):
                v = False
                for i in range(k):
                    si = sym.sel[i]
                    if g_false(si):
                        continue
                    val = sg[i]
                    if subst[i] is not None:
                        val = gite(subst[i][0], subst[i][1][j], sg[i])
                    v = gor(v, gand(si, val))
                out.append(gor(gand(ch.g('var'), v), ch.g('true')))
            return out
        if kind == 'not':
            return [gnot(x) for x in self.sem(t[1], subst)]
        if kind == 'bin':
            a, b = self.sem(t[2], subst), self.sem(t[3], subst)
            out = []
            for x, y in zip(a, b):
                r = False
                for op in BIN:
                    g = t[1].g(op)
                    if not g_false(g):
                        r = gor(r, gand(g, bin_sem(op, x, y)))
                out.append(r)
            return out
        if kind == 'ite':
            c, a, b = self.sem(t[1], subst), self.sem(t[2], subst), self.sem(t[3], subst)
            return [gite(x, y, z) for x, y, z in zip(c, a, b)]
        if kind == 'q':
            qk, syms, body = t[1], t[2], t[3]
            bound = [gor(*[s.sel[i] for s in syms]) for i in range(k)]
            sub2 = []
            for i in range(k):
                if subst[i] is None:
                    sub2.append(None)
                else:
                    # a binder on the same name shadows the fixed-point variable inside
                    sub2.append((gand(subst[i][0], gnot(bound[i])), subst[i][1]))
            tt = self.sem(body, sub2)
            for i in range(k):
                if g_false(bound[i]):
                    continue
                lo, hi = _cof(tt, k, i, False), _cof(tt, k, i, True)
                ex = [gor(x, y) for x, y in zip(lo, hi)]
                fa = [gand(x, y) for x, y in zip(lo, hi)]
                q = [gor(gand(qk.g('Exists'), e), gand(qk.g('Forall'), f)) for e, f in zip(ex, fa)]
                tt = [gite(bound[i], q[j], tt[j]) for j in range(1 << k)]
            return tt
        if kind == 'cc':
            op, subs, n = t[1], t[2], t[3]
            tts = [self.sem(s, subst) for s in subs]
            out = []
            for j in range(1 << k):
                bits = [x[j] for x in tts]
                r = False
                for o in CNT:
                    g = op.g(o)
                    if not g_false(g):
                        r = gor(r, gand(g, _count_cmp(o, bits, n)))
                out.append(r)
            return out
        if kind == 'cv':
            op, ls, rs = t[1], t[2], t[3]
            tl = [self.sem(s, subst) for s in ls]
            tr = [self.sem(s, subst) for s in rs]
            out = []
            for j in range(1 << k):
                bl = [x[j] for x in tl]
                br = [x[j] for x in tr]
                r = False
                for o in CNT:
                    g = op.g(o)
                    if not g_false(g):
                        r = gor(r, gand(g, _count_cmp(o, bl, br)))
                out.append(r)
            return out
        if kind == 'fp':
            sym, init, body = t[1], t[2], t[3]
            cur = [init] * (1 << k)
            done = False          # an iterate that the body maps to itself has been reached
            for step in range(self.U):
                sub2 = list(subst)
                for i in range(k):
                    si = sym.sel[i]
                    if g_false(si):
                        continue
                    if sub2[i] is None:
                        sub2[i] = (si, cur)
                    else:
                        # inner fixed point on the same name shadows the outer one
                        sub2[i] = (gor(si, sub2[i][0]), [gite(si, c, o) for c, o in zip(cur, sub2[i][1])])
                nxt = self.sem(body, sub2)
                same = gand(*[beq(x, y) for x, y in zip(nxt, cur)])
                done = gor(done, same)
                if g_true(done):
                    break
                cur = [gite(done, c, n) for c, n in zip(cur, nxt)]
            self.nonconv = gor(self.nonconv, gnot(done))
            # value = the first iterate that the body maps to itself
            return cur
        raise KeyError(kind)


# ------------------------------------------------------------------------------------------------ text of a concrete tree

BIN_TXT = {'And': '&', 'Or': '|', 'Xor': '^', 'Nor': 'nor', 'Nand': 'nand', 'Implies': '=>', 'ImpliesInv': '<=', 'Iff': '<=>'}
CNT_TXT = {'AtMost': '<=', 'LessThan': '<', 'AtLeast': '>=', 'MoreThan': '>', 'Exactly': '='}


def concretise(t, model):
    """sketch + solver model -> concrete tree (labels chosen, n as int)"""
    kind = t[0]
    C = lambda ch: Choice.concrete(ch.options, ch.pick(model))
    if kind == 'leaf':
        return ('leaf', C(t[1]), C(t[2]))
    if kind == 'not':
        return ('not', concretise(t[1], model))
    if kind == 'bin':
        return ('bin', C(t[1]), concretise(t[2], model), concretise(t[3], model))
    if kind == 'ite':
        return ('ite',) + tuple(concretise(x, model) for x in t[1:])
    if kind == 'q':
        return ('q', C(t[1]), [C(s) for s in t[2]], concretise(t[3], model))
    if kind == 'cc':
        n = t[3]
        if not isinstance(n, int):
            n = model.get(n.decl().name(), 0)
        return ('cc', C(t[1]), [concretise(x, model) for x in t[2]], n)
    if kind == 'cv':
        return ('cv', C(t[1]), [concretise(x, model) for x in t[2]], [concretise(x, model) for x in t[3]])
    if kind == 'fp':
        init = t[2]
        if not isinstance(init, bool):
            init = bool(model.get(init.decl().name(), False))
        return ('fp', C(t[1]), init, concretise(t[3], model))
    raise KeyError(kind)


def which(ch):
    for o, s in zip(ch.options, ch.sel):
        if s is True:
            return o
    return ch.options[0]


def to_text(t, names):
    kind = t[0]
    if kind == 'leaf':
        w = which(t[1])
        return names[which(t[2])] if w == 'var' else w
    if kind == 'not':
        return '-(%s)' % to_text(t[1], names)
    if kind == 'bin':
        return '((%s) %s (%s))' % (to_text(t[2], names), BIN_TXT[which(t[1])], to_text(t[3], names))
    if kind == 'ite':
        return '(if (%s) then (%s) else (%s))' % tuple(to_text(x, names) for x in t[1:])
    if kind == 'q':
        return '(%s %s # (%s))' % (which(t[1]).lower(), ', '.join(names[which(s)] for s in t[2]), to_text(t[3], names))
    if kind == 'cc':
        return '([%s] %s %d)' % (', '.join(to_text(x, names) for x in t[2]), CNT_TXT[which(t[1])], t[3])
    if kind == 'cv':
        return '([%s] %s [%s])' % (', '.join(to_text(x, names) for x in t[2]), CNT_TXT[which(t[1])], ', '.join(to_text(x, names) for x in t[3]))
    if kind == 'fp':
        return '(%s %s # (%s))' % ('gfp' if t[2] else 'lfp', names[which(t[1])], to_text(t[3], names))
    raise KeyError(kind)


def tree_to_json(t):
    kind = t[0]
    W = which
    if kind == 'leaf':
        return ['leaf', W(t[1]), W(t[2])]
    if kind == 'not':
        return ['not', tree_to_json(t[1])]
    if kind == 'bin':
        return ['bin', W(t[1]), tree_to_json(t[2]), tree_to_json(t[3])]
    if kind == 'ite':
        return ['ite'] + [tree_to_json(x) for x in t[1:]]
    if kind == 'q':
        return ['q', W(t[1]), [W(s) for s in t[2]], tree_to_json(t[3])]
    if kind == 'cc':
        return ['cc', W(t[1]), [tree_to_json(x) for x in t[2]], t[3]]
    if kind == 'cv':
        return ['cv', W(t[1]), [tree_to_json(x) for x in t[2]], [tree_to_json(x) for x in t[3]]]
    if kind == 'fp':
        return ['fp', W(t[1]), bool(t[2]), tree_to_json(t[3])]
    raise KeyError(kind)


def tree_from_json(j, k):
    kind = j[0]
    C = Choice.concrete
    atoms = list(range(k))
    if kind == 'leaf':
        return ('leaf', C(LEAF, j[1]), C(atoms, j[2]))
    if kind == 'not':
        return ('not', tree_from_json(j[1], k))
    if kind == 'bin':
        return ('bin', C(BIN, j[1]), tree_from_json(j[2], k), tree_from_json(j[3], k))
    if kind == 'ite':
        return ('ite',) + tuple(tree_from_json(x, k) for x in j[1:])
    if kind == 'q':
        return ('q', C(QK, j[1]), [C(atoms, s) for s in j[2]], tree_from_json(j[3], k))
    if kind == 'cc':
        return ('cc', C(CNT, j[1]), [tree_from_json(x, k) for x in j[2]], int(j[3]))
    if kind == 'cv':
        return ('cv', C(CNT, j[1]), [tree_from_json(x, k) for x in j[2]], [tree_from_json(x, k) for x in j[3]])
    if kind == 'fp':
        return ('fp', C(atoms, j[1]), bool(j[2]), tree_from_json(j[3], k))
    raise KeyError(kind)


def free_atoms(t, k):
    """list of k guards: atom i has an occurrence in t that is not enclosed by a quantifier / fixed-point binder of i"""
    kind = t[0]
    if kind == 'leaf':
        return [gand(t[1].g('var'), t[2].sel[i]) for i in range(k)]
    if kind == 'not':
        return free_atoms(t[1], k)
    if kind in ('bin',):
        a, b = free_atoms(t[2], k), free_atoms(t[3], k)
        return [gor(x, y) for x, y in zip(a, b)]
    if kind == 'ite':
        fs = [free_atoms(x, k) for x in t[1:]]
        return [gor(*[f[i] for f in fs]) for i in range(k)]
    if kind == 'q':
        b = free_atoms(t[3], k)
        return [gand(b[i], gnot(gor(*[s.sel[i] for s in t[2]]))) for i in range(k)]
    if kind == 'cc':
        fs = [free_atoms(x, k) for x in t[2]]
        return [gor(*[f[i] for f in fs]) for i in range(k)]
    if kind == 'cv':
        fs = [free_atoms(x, k) for x in list(t[2]) + list(t[3])]
        return [gor(*[f[i] for f in fs]) for i in range(k)]
    if kind == 'fp':
        b = free_atoms(t[3], k)
        return [gand(b[i], gnot(t[1].sel[i])) for i in range(k)]
    raise KeyError(kind)


def all_atoms(t, k):
    """atom i occurs anywhere in the text of t (leaf variable or binder position)"""
    kind = t[0]
    if kind == 'leaf':
        return [gand(t[1].g('var'), t[2].sel[i]) for i in range(k)]
    if kind == 'not':
        return all_atoms(t[1], k)
    if kind == 'bin':
        a, b = all_atoms(t[2], k), all_atoms(t[3], k)
        return [gor(x, y) for x, y in zip(a, b)]
    if kind == 'ite':
        fs = [all_atoms(x, k) for x in t[1:]]
        return [gor(*[f[i] for f in fs]) for i in range(k)]
    if kind == 'q':
        b = all_atoms(t[3], k)
        return [gor(b[i], *[s.sel[i] for s in t[2]]) for i in range(k)]
    if kind == 'cc':
        fs = [all_atoms(x, k) for x in t[2]]
        return [gor(*[f[i] for f in fs]) for i in range(k)]
    if kind == 'cv':
        fs = [all_atoms(x, k) for x in list(t[2]) + list(t[3])]
        return [gor(*[f[i] for f in fs]) for i in range(k)]
    if kind == 'fp':
        b = all_atoms(t[3], k)
        return [gor(b[i], t[1].sel[i]) for i in range(k)]
    raise KeyError(kind)


def symbol_occurrences(t):
    """symbols in text order: list of (Choice sym, guard 'this position is a variable token')"""
    kind = t[0]
    if kind == 'leaf':
        return [(t[2], t[1].g('var'), t[1])]
    if kind == 'not':
        return symbol_occurrences(t[1])
    if kind == 'bin':
        return symbol_occurrences(t[2]) + symbol_occurrences(t[3])
    if kind == 'ite':
        return sum([symbol_occurrences(x) for x in t[1:]], [])
    if kind == 'q':
        return [(s, True, None) for s in t[2]] + symbol_occurrences(t[3])
    if kind == 'cc':
        return sum([symbol_occurrences(x) for x in t[2]], [])
    if kind == 'cv':
        return sum([symbol_occurrences(x) for x in list(t[2]) + list(t[3])], [])
    if kind == 'fp':
        return [(t[1], True, None)] + symbol_occurrences(t[3])
    raise KeyError(kind)
