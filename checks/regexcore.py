"""C08 lexical unit: the TOKENIZER pattern itself, decided by the solver.

The pattern text is read from /repo's current src/parser.rs on every run, parsed (subset below) and executed
*symbolically* with the regex crate's leftmost-first (backtracking-priority) semantics over a text of N unknown
characters of unknown length L <= N: every match attempt returns a prioritised list of (guard, end) alternatives, the
first alternative whose guard holds wins (alternation order, greedy `+`/`*` with backtracking).  `captures_iter` is
the scan "search from the end of the previous match; no match at p -> p+1".  The reference is the documented lexical
grammar (maximal munch over the documented symbol set; digits -> number; {word} -> reference; word -> identifier;
"..." -> comment, dropped; anything else separates).  Query: some text on which the two token streams (start, group,
end of every non-comment, non-eof match) differ -- unsat within the bound, or a concrete text that is replayed on the
real tokenizer.  What this reaches and tokencore does not: alternation order (<=> before <= before <, number before
identifier), greedy/lazy quantifiers, comment and separator handling, unicode digits.

Characters are abstracted into classes the pattern cannot split (each symbol character alone; { } " ' _; ASCII letter,
ASCII digit, non-ASCII digit (\\d and \\w are Unicode aware), non-ASCII letter, blank, other).  A pattern that uses a
construct outside the subset, or a literal that the alphabet does not keep apart, makes the unit inconclusive.
"""
import re
import z3
from common import decide
from mirsym.dump import REPO

SYMCH = list('!&=>-<|^#*+[],()')
ALPHA = SYMCH + ['{', '}', '"', "'", '_', 'L', 'D', 'UD', 'UL', 'SP', 'OT']
CODE = {c: i for i, c in enumerate(ALPHA)}
REPR = {'L': 'a', 'D': '1', 'UD': '٣', 'UL': 'é', 'SP': ' ', 'OT': '.'}
WORD = {'L', 'D', 'UD', 'UL', '_'}
DIGIT = {'D', 'UD'}
DOC_SYMBOLS = ['!', '&', '=>', '-', '<=>', '<=', '|', '^', '#', '*', '+', '>=', '=', '>', '<', '[', ']', ',', '(', ')']
BITS = 5


class Unsupported(Exception):
    pass


def pattern_from_source():
    src = open(REPO + '/src/parser.rs').read()
    m = re.search(r'static ref TOKENIZER: Regex = Regex::new\(r#"(.*?)"#\)', src, re.S)
    if not m:
        raise Unsupported('TOKENIZER pattern not found as a raw string literal in src/parser.rs')
    return m.group(1)


# ---------------------------------------------------------------------------------------------- regex subset parser
def parse_regex(p):
    pos = 0

    def peek():
        return p[pos] if pos < len(p) else None

    def alt():
        nonlocal pos
        branches = [seq()]
        while peek() == '|':
            pos += 1
            branches.append(seq())
        return ('alt', branches) if len(branches) > 1 else branches[0]

    def seq():
        items = []
        while peek() is not None and peek() not in '|)':
            items.append(quant())
        return ('seq', items)

    def quant():
        nonlocal pos
        a = atom()
        while peek() in ('*', '+', '?'):
            q = p[pos]
            pos += 1
            lazy = False
            if peek() == '?':
                lazy = True
                pos += 1
            a = ('rep', a, q, lazy)
        if peek() == '{':
            raise Unsupported('counted repetition')
        return a

    def esc():
        nonlocal pos
        c = p[pos + 1]
        pos += 2
        if c == 'd':
            return set(DIGIT)
        if c == 'w':
            return set(WORD)
        if c == 's':
            return {'SP'}
        if c in CODE and len(c) == 1 and not c.isalnum():
            return {c}
        raise Unsupported('escape \\%s' % c)

    def lit(c):
        if c in CODE and len(c) == 1 and not c.isalnum():
            return {c}
        if c == ' ':
            return {'SP'}
        raise Unsupported('literal %r is not kept apart by the character-class alphabet' % c)

    def atom():
        nonlocal pos
        c = peek()
        if c == '(':
            pos += 1
            name = None
            if p.startswith('?P<', pos) or p.startswith('?<', pos):
                e = p.index('>', pos)
                name = p[p.index('<', pos) + 1:e]
                pos = e + 1
            elif p.startswith('?:', pos):
                pos += 2
            elif peek() == '?':
                raise Unsupported('group flags')
            inner = alt()
            if peek() != ')':
                raise Unsupported('unbalanced group')
            pos += 1
            return ('grp', name, inner)
        if c == '[':
            pos += 1
            neg = False
            if peek() == '^':
                neg = True
                pos += 1
            s = set()
            first = True
            while peek() != ']' or first:
                first = False
                if peek() is None:
                    raise Unsupported('unterminated class')
                if peek() == '\\':
                    s |= esc()
                else:
                    ch = p[pos]
                    pos += 1
                    if peek() == '-' and pos + 1 < len(p) and p[pos + 1] != ']':
                        raise Unsupported('character range')
                    s |= lit(ch)
            pos += 1
            return ('cls', frozenset(set(ALPHA) - s if neg else s))
        if c == '\\':
            return ('cls', frozenset(esc()))
        if c == '$':
            pos += 1
            return ('end',)
        if c == '^':
            raise Unsupported('start anchor')
        if c == '.':
            raise Unsupported('dot')
        pos += 1
        return ('cls', frozenset(lit(c)))

    t = alt()
    if pos != len(p):
        raise Unsupported('trailing pattern text at %d' % pos)
    return t


# -------------------------------------------------------------------------------- symbolic leftmost-first matching
class Sym:
    def __init__(self, n):
        self.n = n
        self.ch = [z3.BitVec('rx_c%d' % i, BITS) for i in range(n)]
        self.L = z3.BitVec('rx_len', 4)
        self.cons = [z3.ULE(self.L, n)] + [z3.ULT(c, len(ALPHA)) for c in self.ch]

    def inside(self, i):
        return z3.ULT(z3.BitVecVal(i, 4), self.L) if i < self.n else z3.BoolVal(False)

    def is_in(self, i, classes):
        if i >= self.n:
            return z3.BoolVal(False)
        return z3.And(self.inside(i), z3.Or([self.ch[i] == CODE[c] for c in sorted(classes)] or [z3.BoolVal(False)]))

    def at_end(self, i):
        return self.L == i


def m_node(S, node, p, grp, depth=0):
    """prioritised list of (guard, end, group-name) for matching node at concrete position p"""
    k = node[0]
    if k == 'cls':
        return [(S.is_in(p, node[1]), p + 1, grp)] if p < S.n else []
    if k == 'end':
        return [(S.at_end(p), p, grp)]
    if k == 'grp':
        return m_node(S, node[2], p, node[1] or grp, depth)
    if k == 'alt':
        out = []
        for b in node[1]:
            out += m_node(S, b, p, grp, depth)
        return out
    if k == 'seq':
        cur = [(z3.BoolVal(True), p, grp)]
        for it in node[1]:
            nxt = []
            for g, e, gr in cur:
                for g2, e2, gr2 in m_node(S, it, e, gr, depth):
                    nxt.append((z3.And(g, g2), e2, gr2))
            cur = nxt
        return cur
    if k == 'rep':
        _, a, q, lazy = node
        mn = 1 if q == '+' else 0
        once = [(g, e, gr) for g, e, gr in m_node(S, a, p, grp, depth) if e > p]     # empty iterations end the loop
        more = []
        if q != '?':
            star = ('rep', a, '*', lazy)
            for g, e, gr in once:
                for g2, e2, gr2 in m_node(S, star, e, gr, depth + 1):
                    more.append((z3.And(g, g2), e2, gr2))
        else:
            more = once
        stop = [(z3.BoolVal(True), p, grp)] if mn == 0 else []
        return (stop + more) if lazy else (more + stop)
    raise Unsupported(k)


GROUPS = ['symbol', 'countable', 'reference', 'identifier', 'eof', 'comment']


def first_match(S, tree, p):
    """(has, group index, end) as z3 terms: the winner of the prioritised alternatives at p"""
    alts = m_node(S, tree, p, None)
    has = z3.BoolVal(False)
    gi = z3.BitVecVal(7, 3)
    end = z3.BitVecVal(0, 4)
    for g, e, gr in reversed(alts):
        if gr not in GROUPS:
            raise Unsupported('a top-level alternative outside the named groups %s' % GROUPS)
        has = z3.Or(g, has)
        gi = z3.If(g, z3.BitVecVal(GROUPS.index(gr), 3), gi)
        end = z3.If(g, z3.BitVecVal(e, 4), end)
    return has, gi, end


def ref_match(S, p):
    """the documented lexical grammar at position p"""
    n = S.n
    alts = []          # prioritised, mutually exclusive by construction
    for lit in sorted(DOC_SYMBOLS, key=lambda s: -len(s)):          # maximal munch
        if p + len(lit) <= n:
            alts.append((z3.And([S.is_in(p + j, {c}) for j, c in enumerate(lit)]), p + len(lit), 'symbol'))

    def run(classes, a, b):     # characters a..b-1 are in classes and b is not (or is the end)
        return z3.And([S.is_in(j, classes) for j in range(a, b)] + [z3.Not(S.is_in(b, classes))])
    for e in range(p + 1, n + 1):
        alts.append((run(DIGIT, p, e), e, 'countable'))
    for e in range(p + 2, n):
        alts.append((z3.And(S.is_in(p, {'{'}), run(WORD | {"'"}, p + 1, e), S.is_in(e, {'}'})), e + 1, 'reference'))
    for e in range(p + 1, n + 1):
        alts.append((z3.And(z3.Not(S.is_in(p, DIGIT)), run(WORD | {"'"}, p, e)), e, 'identifier'))
    alts.append((S.at_end(p), p, 'eof'))
    for e in range(p + 1, n):
        alts.append((z3.And([S.is_in(p, {'"'}), S.is_in(e, {'"'})] + [z3.And(S.inside(j), z3.Not(S.is_in(j, {'"'}))) for j in range(p + 1, e)]), e + 1, 'comment'))
    has = z3.BoolVal(False)
    gi = z3.BitVecVal(7, 3)
    end = z3.BitVecVal(0, 4)
    for g, e, gr in reversed(alts):
        has = z3.Or(g, has)
        gi = z3.If(g, z3.BitVecVal(GROUPS.index(gr), 3), gi)
        end = z3.If(g, z3.BitVecVal(e, 4), end)
    return has, gi, end


def scan(S, matcher):
    n = S.n
    active = [z3.BoolVal(False)] * (n + 2)
    active[0] = z3.BoolVal(True)
    emits = []
    for p in range(n + 1):
        has, gi, end = matcher(p)
        a = active[p]
        eof = gi == GROUPS.index('eof')
        emits.append((z3.And(a, has, z3.Not(eof), gi != GROUPS.index('comment')), gi, end))
        for e in range(p + 1, n + 1):
            active[e] = z3.Or(active[e], z3.And(a, has, z3.Not(eof), end == e))
        active[p + 1] = z3.Or(active[p + 1], z3.And(a, z3.Not(has)))
    return emits


def concrete_text(m, n):
    L = int(m.get('rx_len', 0) or 0)
    out = ''
    for i in range(min(L, n)):
        c = ALPHA[int(m.get('rx_c%d' % i, 0) or 0) % len(ALPHA)]
        out += REPR.get(c, c)
    return out


def ref_tokens(text):
    """concrete reference lexer -> expected driver token prefixes, or None when a number is not ASCII / too large"""
    from tokencore import SYMBOLS, KEYWORDS
    def cls(ch):
        if ch in CODE and len(ch) == 1 and not ch.isalnum():
            return ch
        if ch.isascii() and ch.isalpha():
            return 'L'
        if ch.isascii() and ch.isdigit():
            return 'D'
        if ch.isdigit() or ch.isdecimal():
            return 'UD'
        if ch.isalpha():
            return 'UL'
        return 'SP' if ch.isspace() else 'OT'
    cs = [cls(c) for c in text]
    word = WORD | {"'"}
    out, p, n = [], 0, len(text)
    while p < n:
        lit = next((s for s in sorted(DOC_SYMBOLS, key=lambda s: -len(s)) if text.startswith(s, p)), None)
        if lit:
            out.append(SYMBOLS[lit]); p += len(lit); continue
        if cs[p] in DIGIT:
            e = p
            while e < n and cs[e] in DIGIT:
                e += 1
            t = text[p:e]
            if not t.isascii() or int(t) >= (1 << 64):
                return None
            out.append('Countable(%d)' % int(t)); p = e; continue
        if cs[p] == '{':
            e = p + 1
            while e < n and cs[e] in word:
                e += 1
            if e > p + 1 and e < n and cs[e] == '}':
                out.append('Reference(%s)' % text[p + 1:e]); p = e + 1; continue
            p += 1; continue
        if cs[p] in word:
            e = p
            while e < n and cs[e] in word:
                e += 1
            t = text[p:e]
            out.append(KEYWORDS.get(t) or 'Var(%s:' % t); p = e; continue
        if cs[p] == '"':
            e = text.find('"', p + 1)
            if e >= 0:
                p = e + 1; continue
        p += 1
    return out + ['Eof']


def unit_regex(n, opts):
    res = dict(queries=[], method='TOKENIZER pattern (leftmost-first semantics) vs documented lexical grammar')
    pat = opts.get('pattern') or pattern_from_source()
    try:
        tree = parse_regex(pat)
        S = Sym(n)
        real = scan(S, lambda p: first_match(S, tree, p))
    except Unsupported as e:
        res['status'] = 'inconclusive'
        res['error'] = 'TOKENIZER pattern outside the modelled regex subset: %s' % e
        return res
    ref = scan(S, lambda p: ref_match(S, p))
    diff = z3.Or([z3.Or(a[0] != b[0], z3.And(a[0], z3.Or(a[1] != b[1], a[2] != b[2]))) for a, b in zip(real, ref)])
    cex = None
    for name, neg, expect in (('assumptions-satisfiable: a text with a symbol, a number and a word', z3.And(real[0][0], S.L == n), 'sat'),
                              ('the pattern\'s match stream equals the documented lexical grammar on every text of <= %d characters without non-ASCII digits' % n, z3.And([diff] + [c != CODE['UD'] for c in S.ch]), 'unsat'),
                              ('the pattern\'s match stream equals the documented lexical grammar on every text of <= %d characters' % n, diff, 'unsat')):
        q = decide(name, S.cons, neg, timeout_s=opts.get('timeout', 300), prefer='z3')
        q['expect'] = expect
        m = q.pop('model', None)
        res['queries'].append(q)
        if q['result'] == 'sat' and expect == 'unsat' and cex is None:
            cex = dict(obligation=name, case=dict(kind='regex', text=concrete_text(m or {}, n), pattern=pat))
        elif q['result'] not in ('sat', 'unsat') or (expect == 'sat' and q['result'] != 'sat'):
            res['status'] = 'inconclusive'
            res['error'] = 'solver: %s on %s' % (q['result'], name)
    res['cex'] = cex
    import hashlib
    res['functions'] = {'parser::TOKENIZER (pattern text from src/parser.rs, %d characters)' % len(pat): hashlib.sha256(pat.encode()).hexdigest()[:16]}
    res['sample'] = dict(unit='regex pattern vs lexical grammar', text='unknown text of <= %d characters over %d character classes' % (n, len(ALPHA)), obligations=[q['name'] for q in res['queries']])
    return res


def jobs(quick):
    return [('tokenize: TOKENIZER pattern vs lexical grammar, texts of <= %d characters' % n, unit_regex, (n, {})) for n in ((4, 8) if quick else (8, 12))]


def replay_regex(rep, pid, name, cex):
    from common import driver_run, save_replay
    case = cex['case']
    text = case['text']
    line = 'tokens %s -' % (text.encode().hex() or '20')
    want = ref_tokens(text)
    verd = {}
    for profile in ('dev', 'release'):
        ans = driver_run([line], profile, timeout=30)[0]
        if ans.startswith('panic'):
            verd[profile] = (True, 'panic: ' + ans[6:120], ans)
        elif want is None:
            verd[profile] = (ans.startswith('ok'), 'a number that is not a usize was accepted: ' + ans[:100], ans)
        elif ans.startswith('ok'):
            got = ans.split()[1:]
            bad = len(got) != len(want) or any(not g.startswith(w) for g, w in zip(got, want))
            verd[profile] = (bad, 'tokens %s, documented %s' % (got, want), ans)
        else:
            verd[profile] = (True, 'documented text rejected: ' + ans[:100], ans)
    case.update(obligation=cex['obligation'], unit=name, driver_line=line, replay={p: {'violates': v[0], 'what': v[1], 'driver_answer': v[2][:300]} for p, v in verd.items()})
    path = save_replay(pid, case)
    hit = [p for p, v in verd.items() if v[0]]
    if hit:
        d = verd[hit[0]][1]
        rep.violations.append(('regex:%s' % ('panic' if d.startswith('panic') else 'wrong-token-stream'), 'text `%s`: %s' % (text, d), path))
        print('CONFIRMED `%s`: %s' % (text, d))
    else:
        rep.inconclusive.append('%s: lexical counterexample `%s` did not reproduce (%s)' % (name, text, verd['dev'][1]))
        print('NOT-REPRODUCED `%s`: %s' % (text, verd['dev'][1]))
