"""Shared machinery of the checks: solver front end (kissat on our own Tseitin CNF for propositional queries, z3 SMT
otherwise), parallel unit runner, replay client (real compiled crate), known findings, evidence, exit codes."""
import concurrent.futures as cf
import hashlib
import json
import multiprocessing as mp
import os
import re
import subprocess
import sys
import time
import traceback

sys.path.insert(0, os.path.dirname(os.path.dirname(os.path.abspath(__file__))))

import z3  # noqa: E402
from mirsym import cnf, dump  # noqa: E402
from mirsym.values import *  # noqa: E402,F401
from mirsym.mirparse import Unsupported  # noqa: E402

VERIF = os.path.dirname(os.path.dirname(os.path.abspath(__file__)))
CACHE = os.environ.get('VERIF_CACHE') or os.path.join(VERIF, '.cache')
EVIDENCE = os.environ.get('VERIF_EVIDENCE') or os.path.join(VERIF, 'evidence')
REPLAYS = os.environ.get('VERIF_REPLAYS') or os.path.join(VERIF, 'replays')
KNOWN = os.path.join(VERIF, 'known_findings.txt')

TIER = os.environ.get('VERIF_TIER', 'quick')
SEED = int(os.environ.get('VERIF_SEED', '1') or 1)
NPROC = int(os.environ.get('VERIF_JOBS', '0') or 0) or min(16, os.cpu_count() or 4)


# ------------------------------------------------------------------------------------------------ solving

def free_vars_of(f, acc=None, seen=None):
    """names of uninterpreted constants in f (iterative)"""
    acc = set() if acc is None else acc
    seen = set() if seen is None else seen
    stack = [f]
    while stack:
        x = stack.pop()
        i = x.get_id()
        if i in seen:
            continue
        seen.add(i)
        if z3.is_const(x) and x.decl().kind() == z3.Z3_OP_UNINTERPRETED:
            acc.add(x.decl().name())
        else:
            stack.extend(x.children())
    return acc


def decide(name, assumptions, neg, timeout_s=600, prefer='auto', want=None):
    """Decide satisfiability of  /\\assumptions /\\ neg.  -> dict(result, time, backend, size, model)
    model: {var name: python value} for the variables of the query (on sat)."""
    t0 = time.time()
    if TIER == 'thorough':
        # the thorough tier has an hour per unit: a query that takes 4 minutes alone (and longer beside 15 other workers)
        # must not come back "unknown" because of a timeout chosen for the quick tier
        timeout_s = max(timeout_s, 1500)
    out = dict(name=name, result=None, time=0.0, backend=None, size=None, model=None, trivial=False)
    if g_false(neg):
        out.update(result='unsat', backend='trivial', trivial=True)
        return out
    neg = to_bool(neg)
    assumptions = [to_bool(a) for a in assumptions if not g_true(a)]
    if prefer in ('auto', 'kissat'):
        try:
            # assumptions that share no variable with the goal and are independently satisfiable (the strict ordering
            # of the 64-bit atom constants) can be dropped without changing the verdict
            used = free_vars_of(neg)
            keep, dropped = [], []
            for a in assumptions:
                fv = free_vars_of(a)
                (keep if fv & used else dropped).append(a)
            for a in keep:
                used |= free_vars_of(a)
            # second pass: anything sharing with kept ones
            keep2 = list(keep)
            dropped2 = []
            for a in dropped:
                if free_vars_of(a) & used:
                    keep2.append(a)
                else:
                    dropped2.append(a)
            res, model, size = cnf.solve_kissat(keep2 + [neg], timeout_s=timeout_s, workdir=tmpdir())
            out.update(result=res, backend='kissat(own tseitin)', size={'vars': size[0], 'clauses': size[1]}, model=model)
            if res == 'sat' and dropped2:
                # complete the model with a model of the dropped (independent) assumptions
                s = z3.Solver()
                s.add(*dropped2)
                if s.check() == z3.sat:
                    m = s.model()
                    for d in m.decls():
                        out['model'][d.name()] = _pyval(m[d])
                else:
                    out['result'] = 'unknown'
            out['time'] = time.time() - t0
            return out
        except cnf.NotPropositional:
            pass
    s = z3.Solver()
    s.set('timeout', int(timeout_s * 1000))
    for a in assumptions:
        s.add(a)
    s.add(neg)
    r = s.check()
    out.update(result=str(r), backend='z3-' + z3.get_version_string())
    if r == z3.sat:
        m = s.model()
        out['model'] = {d.name(): _pyval(m[d]) for d in m.decls()}
    out['time'] = time.time() - t0
    return out


def _pyval(v):
    if z3.is_bool(v):
        return z3.is_true(v)
    if z3.is_bv_value(v):
        return v.as_long()
    if z3.is_int_value(v):
        return v.as_long()
    if z3.is_string_value(v):
        return v.as_string()
    return str(v)


def crosscheck_z3(assumptions, neg, timeout_s=120):
    s = z3.Solver()
    s.set('timeout', int(timeout_s * 1000))
    for a in assumptions:
        s.add(to_bool(a))
    s.add(to_bool(neg))
    return str(s.check())


def tmpdir():
    d = os.path.join(CACHE, 'tmp')
    os.makedirs(d, exist_ok=True)
    return d


# ------------------------------------------------------------------------------------------------ units

class UnitResult(dict):
    pass


UNIT_DEADLINE = int(os.environ.get('VERIF_UNIT_DEADLINE', '0') or 0) or (540 if TIER != 'thorough' else 3300)


class UnitTimeout(BaseException):
    """the unit's time cap.  A BaseException, and re-armed every few seconds: no `except Exception` inside the engine
    can swallow it for good."""
    pass


_armed = [False]


def _alarm(signum, frame):
    if _armed[0]:
        raise UnitTimeout()


def run_unit(fn, args):
    """executed in a worker process"""
    import signal
    t0 = time.time()
    try:
        signal.signal(signal.SIGALRM, _alarm)
        signal.setitimer(signal.ITIMER_REAL, UNIT_DEADLINE, 5)
    except ValueError:
        pass
    try:
        _armed[0] = True
        r = fn(*args)
        _armed[0] = False
        r.setdefault('status', 'pass')
    except UnitTimeout:
        _armed[0] = False
        r = dict(status='inconclusive', error='unit exceeded its time cap of %d s (symbolic execution or solving did not finish)' % UNIT_DEADLINE)
    except Unsupported as e:
        r = dict(status='inconclusive', error='unsupported MIR construct: %s' % e, tb=traceback.format_exc()[-1500:])
    except EngineError as e:
        r = dict(status='inconclusive', error='engine: %s' % e, tb=traceback.format_exc()[-1500:])
    except Exception as e:   # noqa
        r = dict(status='inconclusive', error='%s: %s' % (type(e).__name__, e), tb=traceback.format_exc()[-2500:])
    finally:
        _armed[0] = False
        try:
            signal.setitimer(signal.ITIMER_REAL, 0, 0)
        except ValueError:
            pass
    r['wall'] = round(time.time() - t0, 2)
    return r


def run_units(units, nproc=None, deadline_s=None):
    """units: list of (name, fn, args).  Runs them in forked workers; returns {name: result}"""
    nproc = nproc or NPROC
    results = {}
    if nproc <= 1 or len(units) == 1:
        for name, fn, args in units:
            results[name] = run_unit(fn, args)
            results[name]['name'] = name
        return results
    try:
        dump.source_root()          # once, before the workers all ask for it
    except Exception:   # noqa
        pass
    ctx = mp.get_context('fork')
    t0 = time.time()
    with cf.ProcessPoolExecutor(max_workers=nproc, mp_context=ctx) as ex:
        futs = {ex.submit(run_unit, fn, args): name for name, fn, args in units}
        for f in cf.as_completed(futs):
            name = futs[f]
            try:
                r = f.result()
            except Exception as e:   # noqa
                r = dict(status='inconclusive', error='worker died: %r' % (e,))
            r['name'] = name
            results[name] = r
    return results


# ------------------------------------------------------------------------------------------------ replay driver

_driver_built = {}


def build_driver(profile='dev'):
    """(re)build the replay driver against /repo's current working tree"""
    if profile in _driver_built:
        return _driver_built[profile]
    env = dict(os.environ)
    env['CARGO_NET_OFFLINE'] = 'true'
    env['CARGO_TARGET_DIR'] = os.path.join(CACHE, 'replay-target')
    env.pop('RUSTFLAGS', None)
    cmd = ['cargo', 'build', '--offline', '-q'] + (['--release'] if profile == 'release' else [])
    crate = os.path.join(VERIF, 'replay')
    if os.path.abspath(dump.REPO) != '/repo':
        # checks pointed at another copy of the repository (seed runs): same driver sources, path dependency redirected
        import shutil
        crate = os.path.join(CACHE, 'replay-crate')
        os.makedirs(os.path.join(crate, 'src'), exist_ok=True)
        shutil.copy(os.path.join(VERIF, 'replay', 'src', 'main.rs'), os.path.join(crate, 'src', 'main.rs'))
        shutil.copy(os.path.join(VERIF, 'replay', 'Cargo.lock'), os.path.join(crate, 'Cargo.lock'))
        toml = open(os.path.join(VERIF, 'replay', 'Cargo.toml')).read().replace('path = "/repo"', 'path = "%s"' % os.path.abspath(dump.REPO))
        open(os.path.join(crate, 'Cargo.toml'), 'w').write(toml)
    p = subprocess.run(cmd, cwd=crate, env=env, capture_output=True, text=True)
    if p.returncode != 0:
        raise RuntimeError('replay driver build failed:\n' + p.stderr[-3000:])
    path = os.path.join(CACHE, 'replay-target', 'release' if profile == 'release' else 'debug', 'rsbdd_replay')
    _driver_built[profile] = path
    return path


_bins = {}


def build_repo_bin(name, package=None):
    """build a binary of /repo's current working tree into a private target dir; returns the executable path"""
    if name in _bins:
        return _bins[name]
    env = dict(os.environ)
    env['CARGO_NET_OFFLINE'] = 'true'
    env['CARGO_TARGET_DIR'] = os.path.join(CACHE, 'repo-target')
    env.pop('RUSTFLAGS', None)
    cmd = ['cargo', 'build', '--offline', '-q', '--manifest-path', os.path.join(dump.REPO, 'Cargo.toml'), '-p', package or name, '--bin', name]
    p = subprocess.run(cmd, env=env, capture_output=True, text=True)
    if p.returncode != 0:
        raise RuntimeError('building %s failed:\n%s' % (name, p.stderr[-3000:]))
    path = os.path.join(CACHE, 'repo-target', 'debug', name)
    _bins[name] = path
    return path


def driver_run(lines, profile='dev', timeout=120):
    path = build_driver(profile)
    try:
        p = subprocess.run([path], input='\n'.join(lines) + '\n', capture_output=True, text=True, timeout=timeout)
    except subprocess.TimeoutExpired:
        return ['timeout no answer within %d s' % timeout] * len(lines)
    out = p.stdout.strip().split('\n') if p.stdout.strip() else []
    if len(out) != len(lines):
        out += ['error driver died rc=%s %s' % (p.returncode, p.stderr[-200:].replace('\n', ' '))] * (len(lines) - len(out))
    return out


def parse_driver(ans):
    """'ok (3_T_F) tt=01 wf=1 unchanged=1' -> dict"""
    toks = ans.split()
    d = {'status': toks[0] if toks else 'error', 'raw': ans}
    for t in toks[1:]:
        if '=' in t and not t.startswith('('):
            k, v = t.split('=', 1)
            d[k] = v
        else:
            d.setdefault('pos', []).append(t)
    return d


# ------------------------------------------------------------------------------------------------ findings

def load_known():
    """known_findings.txt lines:  'known: property=<id> key=<role key> <description>'  |  'fixed: property=<id> <commit> <what>'"""
    known = []
    if os.path.exists(KNOWN):
        for ln in open(KNOWN):
            ln = ln.strip()
            if ln.startswith('known:'):
                m = re.match(r'^known:\s+property=(\S+)\s+key=(\S+)\s*(.*)$', ln)
                if m:
                    known.append((m.group(1), m.group(2), m.group(3)))
    return known


def save_replay(pid, case):
    os.makedirs(REPLAYS, exist_ok=True)
    blob = json.dumps(case, sort_keys=True, indent=1)
    h = hashlib.sha256(blob.encode()).hexdigest()[:10]
    path = os.path.join(REPLAYS, '%s-%s.json' % (pid, h))
    with open(path, 'w') as f:
        f.write(blob + '\n')
    return path


# ------------------------------------------------------------------------------------------------ evidence / exit

class Report:
    def __init__(self, pid, level='model_checking'):
        self.pid = pid
        self.level = level
        self.t0 = time.time()
        self.queries = []
        self.samples = []
        self.functions = {}
        self.models_used = set()
        self.bounds = {}
        self.assumptions = []
        self.uncovered = []
        self.violations = []      # (key, description, replay path)
        self.known_hits = []
        self.inconclusive = []
        self.extra = {}
        self.stats = dict(calls=0, memo_hits=0, stmts=0, forks=0, lookups=0)
        self.blocks = 0
        self.validated = 0
        self.selftest = None

    def absorb(self, results):
        for name, r in sorted(results.items()):
            if r.get('status') == 'inconclusive':
                self.inconclusive.append('%s: %s' % (name, r.get('error')))
                if r.get('tb'):
                    sys.stderr.write('--- %s\n%s\n' % (name, r['tb']))
            for q in r.get('queries', []):
                q = dict(q)
                q['unit'] = name
                self.queries.append(q)
            for k, v in r.get('stats', {}).items():
                self.stats[k] = self.stats.get(k, 0) + v
            self.blocks += r.get('blocks', 0)
            for fn, h in r.get('functions', {}).items():
                self.functions[fn] = h
            self.models_used |= set(r.get('models', []))
            if r.get('sample') and len(self.samples) < 12:
                self.samples.append(r['sample'])
            if r.get('wall') is not None:
                sl = self.extra.setdefault('slowest_units_s', [])
                sl.append((r['wall'], name))
                sl.sort(reverse=True)
                del sl[5:]

    def finish(self, known=None):
        known = known if known is not None else load_known()
        rc = 0
        for key, desc, path in self.violations:
            hit = [k for k in known if k[0] == self.pid and k[1] == key]
            if hit:
                print('KNOWN-FINDING: property=%s %s (%s)' % (self.pid, hit[0][2] or desc, key))
                self.known_hits.append(key)
            else:
                print('VIOLATION property=%s replay=%s' % (self.pid, path))
                print('  what: %s [%s]' % (desc, key))
                rc = 1
        for m in self.inconclusive:
            print('INCONCLUSIVE: ' + m)
        if self.inconclusive and rc == 0:
            rc = 2
        nq = len(self.queries)
        nontriv = {(q['unit'], q['name']) for q in self.queries if not q.get('trivial')}
        discharged = sum(1 for q in self.queries if q['result'] == 'unsat' and q.get('expect', 'unsat') == 'unsat') + \
            sum(1 for q in self.queries if q['result'] == 'sat' and q.get('expect') == 'sat')
        ev = {
            'property_id': self.pid,
            'tier': TIER if TIER in ('quick', 'thorough') else 'quick',
            'seed': SEED,
            'level': self.level,
            'wall_s': round(time.time() - self.t0, 2),
            'violations': len([v for v in self.violations if v[0] not in self.known_hits]),
            'assumptions': self.assumptions,
            'coverage': {
                'evaluations': max(nq, 1),
                'distinct_nontrivial': len(nontriv),
                'rule': 'one evaluation = one solver query (obligation) over the symbolic execution of the real MIR; '
                        'non-trivial = the negated obligation did not simplify to the constant false before reaching '
                        'the solver; distinct = distinct (unit, obligation) pairs',
                'obligations': nq,
                'discharged': discharged,
                'states': max(1, self.stats.get('calls', 0) - self.stats.get('memo_hits', 0)),
                'transitions': max(1, self.stats.get('stmts', 0)),
                'traces_validated_against_impl': self.validated,
                'samples': self.samples or [{'note': 'no obligations ran'}],
                'exhaustive': False,
                'bounds': self.bounds,
                'functions_encoded': self.functions,
                'library_models_used': sorted(self.models_used),
                'mir_basic_blocks_reached': self.blocks,
                'interpreter_stats': self.stats,
                'solver_time_s': round(sum(q['time'] for q in self.queries), 2),
                'queries': [{k: q.get(k) for k in ('unit', 'name', 'result', 'time', 'backend', 'size', 'expect')} for q in self.queries][:400],
                'self_test': self.selftest,
                'not_covered': self.uncovered,
                'known_findings_matched': self.known_hits,
                'inconclusive': self.inconclusive,
            },
        }
        ev['coverage'].update(self.extra)
        for q in ev['coverage']['queries']:
            if q.get('time') is not None:
                q['time'] = round(q['time'], 3)
        os.makedirs(EVIDENCE, exist_ok=True)
        with open(os.path.join(EVIDENCE, '%s.json' % self.pid), 'w') as f:
            json.dump(ev, f, indent=1, sort_keys=True, default=str)
        print('%s: %d obligations, %d discharged, %d violations, %d known, %d inconclusive, %.1fs  -> exit %d' % (
            self.pid, nq, discharged, len(self.violations) - len(self.known_hits), len(self.known_hits), len(self.inconclusive),
            time.time() - self.t0, rc))
        return rc


def interp_summary(I):
    """what a unit reports about the symbolic execution"""
    fns = {}
    for (name, bb) in I.covered:
        it = I.by_name.get(name)
        if it is not None:
            fns[it.last if it.span is None else '%s (%s)' % (it.last, it.span.split(':')[0])] = it.text_hash
    return dict(stats=dict(I.stats), blocks=len(I.covered), functions=fns, models=sorted(I.models.used))
