#!/usr/bin/env python3
import props
props.main('C02')
