#!/usr/bin/env python3
"""C03 - connectives compute the pointwise Boolean operation of their operands."""
import sys
from runner import *   # noqa

PID = 'C03'
OPS = ['and', 'or', 'not', 'implies', 'eq', 'xor', 'nor', 'nand', 'ite', 'var', 'const']
BASE = ('and', 'or', 'not')


def main():
    quick = TIER != 'thorough'
    kfull = 3 if quick else 4
    kind = 5 if quick else 6
    to = 280 if quick else 3000
    sem = ('sem', 'panic')
    units = []
    # base operations: the whole recursion executed symbolically (no summaries)
    for op in ('and', 'or', 'not', 'implies', 'nor', 'nand', 'var', 'const'):
        units.append(('%s k=%d full recursion' % (op, kfull), op, kfull, dict(obligations=('sem', 'struct', 'panic'), timeout=to)))
    # ... and the inductive step (recursive calls replaced by the contract, arguments checked to be sub-diagrams)
    for op in BASE:
        units.append(('%s k=%d induction step' % (op, kind), op, kind, dict(obligations=sem, inductive=True, timeout=to)))
    # derived connectives: their own body is executed, calls to and/or/not/implies are replaced by the contracts above
    for op in ('eq', 'xor', 'ite', 'implies', 'nor', 'nand'):
        units.append(('%s k=%d (callees by contract)' % (op, kfull + 1), op, kfull + 1,
                      dict(obligations=sem, summaries=('and', 'or', 'not', 'implies'), timeout=to)))
    # derived connectives with nothing summarised, at the size where that is affordable
    for op in ('eq', 'xor', 'ite'):
        units.append(('%s k=2 full recursion' % op, op, 2, dict(obligations=sem, timeout=to)))
    # aliasing: the same diagram in both argument positions
    for op in ('and', 'or', 'implies', 'nor', 'nand'):
        units.append(('%s k=3 aliased operands' % op, op, 3, dict(obligations=sem, alias=True, witness=False, timeout=to)))
    for op in ('eq', 'xor'):
        units.append(('%s k=3 aliased operands (callees by contract)' % op, op, 3,
                      dict(obligations=sem, alias=True, witness=False, summaries=('and', 'or', 'not', 'implies'))))
    selftests = [
        ('or: mk_const(true)->false', 'or', 2, dict(obligations=('sem',), witness=False, mutate=('or', 'mk_const(copy _1, const true)', 'mk_const(copy _1, const false)'))),
        ('and: va<vb arm takes the wrong cofactor', 'and', 2, dict(obligations=('sem',), witness=False, mutate=('and', 'clone(copy _20)', 'clone(copy _16)'))),
        ('xor (callees by contract): swapped not', 'xor', 2, dict(obligations=('sem',), witness=False, summaries=('and', 'or', 'not'), mutate=('xor', 'BDDEnv::<S>::or(', 'BDDEnv::<S>::and('))),
    ]
    # two connectives applied to the same operands in one environment (state threaded through the real code)
    pairs = [(a, b) for a in ('eq', 'xor', 'nor', 'nand', 'ite', 'implies', 'and') for b in ('eq', 'xor', 'nor', 'nand', 'and', 'or') if a != b]
    xj = [('history %s ; %s k=2' % (a, b), unit_pair, (a, b, 2, {})) for a, b in pairs]
    rep = run_property(
        PID, units, OPS, selftests, extra_jobs=xj,
        bounds={'variables_k': {'full recursion': kfull, 'induction step': kind, 'derived connectives (callees by contract)': kfull + 1},
                'ids': 'k symbolic 64-bit atoms a0<a1<.. (any spacing; order-only abstraction with bit-vector fallback)',
                'operands': 'every Boolean function of k variables in every argument position (symbolic truth tables), plus aliased operands',
                'unique_table': 'arbitrary table satisfying its invariant: every lookup of a non-leaf key may hit or miss'},
        assumptions=['library models listed under coverage.library_models_used',
                     'unique table modelled by its representation invariant (C13 checks that every operation preserves it)',
                     'ids are used by the code only through ==, <, cmp, clone, hash (anything else falls back to 64-bit terms)',
                     'contract summaries: a callee is replaced by "returns the canonical diagram of f(operand tables)" only where a unit of this same run discharges exactly that contract (and/or/not/implies full recursion)'],
        uncovered=['k larger than the stated bounds', 'operands that are not canonical diagrams (forged by hand)',
                   '"operands unchanged" holds by construction: the interpreter has no store through Rc (unsafe_code is forbidden in the crate)'])
    sys.exit(rep.finish())


if __name__ == '__main__':
    main()
