#!/usr/bin/env python3
"""C15 - n_queens_gen emits a formula whose models are exactly the n-queens solutions."""
import sys
import z3
from gencore import *   # noqa
import genlang

PID = 'C15'


def attacks(n):
    cells = [(r, c) for r in range(n) for c in range(n)]
    out = []
    for i, (r1, c1) in enumerate(cells):
        for (r2, c2) in cells[i + 1:]:
            if r1 == r2 or c1 == c2 or abs(r1 - r2) == abs(c1 - c2):
                out.append((r1 * n + c1, r2 * n + c2))
    return out


def spec_for(n):
    def spec(tree, env):
        names = ['v_%d' % k for k in range(n * n)]
        problems = []
        used = set(genlang.variables(tree))
        if not used <= set(names):
            problems.append('formula mentions variables outside v_0..v_%d: %s' % (n * n - 1, sorted(used - set(names))[:5]))
        for nm in names:
            env.setdefault(nm, z3.Bool('x_' + nm))
        x = [env[nm] for nm in names]
        placed = z3.Sum([z3.If(v, 1, 0) for v in x]) == n
        noattack = z3.And(*[z3.Not(z3.And(x[a], x[b])) for a, b in attacks(n)]) if n > 1 else z3.BoolVal(True)
        return z3.And(placed, noattack), names, problems
    return spec


def spec_eval(case):
    n = int(case['args'][1])
    on = [k for k in range(n * n) if case['assignment'].get('v_%d' % k)]
    if len(on) != n:
        return False
    return not any(a in on and b in on for a, b in attacks(n))


def unit_real_eval(n, opts):
    """the real evaluator's truth table of the emitted formula == the n-queens solutions (small n)"""
    res = dict(queries=[], method=None)
    rc, out, err = run_gen('n_queens_gen', ['-n', str(n)])
    ans = driver_run(['formula %s - eval' % out.encode().hex()], 'dev', timeout=200)[0]
    d = parse_driver(ans)
    ok = d['status'] == 'ok'
    bad = None
    if ok:
        free = [x.split(':')[0] for x in d['free'].split(',') if x]
        tt = d['tt']
        k = len(free)
        for j in range(1 << k):
            asg = {free[i]: bool((j >> (k - 1 - i)) & 1) for i in range(k)}
            want = spec_eval(dict(args=['-n', str(n)], assignment=asg))
            if (tt[j] == '1') != want:
                bad = asg
                break
    res['queries'].append(dict(name='real rsbdd evaluation of the output lists exactly the n-queens placements (all %d assignments)' % (1 << (n * n)), result='unsat' if ok and bad is None else 'sat',
                               expect='unsat', time=0.0, backend='replay driver + enumeration', size=None))
    if not ok or bad is not None:
        res['cex'] = dict(obligation='real evaluation == solutions', case=dict(kind='gen', generator='n_queens_gen', args=['-n', str(n)], stdin=None, what='real evaluator disagrees at %s (%s)' % (bad, ans[:80])))
    res['sample'] = dict(config=dict(generator='n_queens_gen', args=['-n', str(n)]), real_evaluator='truth table of %d variables compared with brute force' % (n * n))
    return res


def lines_of(n):
    rows = [[r * n + c for c in range(n)] for r in range(n)]
    cols = [[r * n + c for r in range(n)] for c in range(n)]
    diags = []
    for d in range(-(n - 1), n):
        l = [r * n + (r - d) for r in range(n) if 0 <= r - d < n]
        if len(l) > 1:
            diags.append(l)
    for sm in range(0, 2 * n - 1):
        l = [r * n + (sm - r) for r in range(n) if 0 <= sm - r < n]
        if len(l) > 1:
            diags.append(l)
    return rows, cols, diags


def flat_and(e):
    if z3.is_and(e):
        out = []
        for c in e.children():
            out += flat_and(c)
        return out
    return [e]


def unit_decomposed(n, opts):
    """Larger boards: the monolithic query 'emitted <=> specification' is a pigeonhole problem the solver does not finish
    beyond n = 11.  The same equivalence is decided through intermediate lemmas, each a solver query of its own:

      soundness   (S1) emitted => row r holds exactly one queen, for every r;
                  (S2) n integers equal to one add up to n  (the row sums abstracted to opaque integers; the number of
                       queens is the sum of the row sums - the same n*n summands regrouped);
                  (S3) emitted => no two queens attack each other;
      completeness(C1) no-attack => every row, column and diagonal holds at most one queen;
                  (C2) n integers that are at most one and add up to n are all equal to one (rows; columns likewise);
                  (C3) specification and the line facts of C1 / C2 => E, for every top-level conjunct E of the emitted
                       formula (the whole formula if it is not a conjunction).
    All unsat: the two formulas have the same models.  A model of S1 / S3 / C3 is an assignment on which they disagree
    (the lemmas asserted in C3 follow from the specification) and is re-evaluated directly before it is reported."""
    res = dict(queries=[], method=None, config=dict(generator='n_queens_gen', args=['-n', str(n)]))
    rc, out, err = run_gen('n_queens_gen', ['-n', str(n)])
    if rc != 0:
        res['cex'] = dict(obligation='generator runs', case=dict(kind='gen', generator='n_queens_gen', args=['-n', str(n)], stdin=None, what='generator failed: rc=%s %s' % (rc, err[-200:])))
        res['queries'].append(dict(name='generator produces output', result='sat', expect='unsat', time=0.0, backend='run', size=None))
        return res
    try:
        tree = genlang.parse(out)
    except genlang.ParseError as e:
        res['cex'] = dict(obligation='output is a well-formed formula', case=dict(kind='gen', generator='n_queens_gen', args=['-n', str(n)], stdin=None, what='not well formed: %s' % e, text=out[:400]))
        res['queries'].append(dict(name='output is a well-formed formula (reference parser)', result='sat', expect='unsat', time=0.0, backend='genlang', size=None))
        return res
    env = {}
    emitted = genlang.to_z3(tree, env)
    spec, names, problems = spec_for(n)(tree, env)
    for pmsg in problems:
        res['queries'].append(dict(name=pmsg, result='sat', expect='unsat', time=0.0, backend='check', size=None))
        res['cex'] = dict(obligation=pmsg, case=dict(kind='gen', generator='n_queens_gen', args=['-n', str(n)], stdin=None, what=pmsg, text=out[:400]))
    x = [env[nm] for nm in names]
    S = lambda l: z3.Sum([z3.If(x[i], 1, 0) for i in l])
    rows, cols, diags = lines_of(n)
    noattack = spec.children()[1] if n > 1 else z3.BoolVal(True)
    R = [z3.Int('linesum_%d' % r) for r in range(n)]
    obl = []
    for r, l in enumerate(rows):
        obl.append(('S1 the formula implies: row %d holds exactly one queen' % r, [emitted, S(l) != 1], True))
    obl.append(('S2 n integers equal to one add up to n', [z3.And(*[v == 1 for v in R]), z3.Sum(R) != n], False))
    obl.append(('S3 the formula excludes every pair of attacking queens', [emitted, z3.Not(noattack)], True))
    for kind, ls in (('row', rows), ('column', cols), ('diagonal', diags)):
        for i, l in enumerate(ls):
            obl.append(('C1 no attack => %s %d holds at most one queen' % (kind, i), [noattack, S(l) >= 2], False))
    obl.append(('C2 n integers that are at most one and add up to n are all one', [z3.And(*[v <= 1 for v in R]), z3.Sum(R) == n, z3.Or(*[v != 1 for v in R])], False))
    lemmas = [S(l) == 1 for l in rows + cols] + [S(l) <= 1 for l in diags]
    for i, e in enumerate(flat_and(emitted)):
        obl.append(('C3 specification (with its line facts) implies conjunct %d of the formula' % i, [spec] + lemmas + [z3.Not(e)], True))
    for nm, fs, disagree in obl:
        q, model = decide_equiv(nm + ' [n=%d]' % n, z3.And(*fs), z3.BoolVal(False), timeout_s=opts.get('timeout', 300))
        res['queries'].append(q)
        if q['result'] == 'sat' and not res.get('cex'):
            if disagree:
                asg = {k2: bool(model.get('x_' + k2, False)) for k2 in names}
                res['cex'] = dict(obligation=q['name'], case=dict(kind='gen', generator='n_queens_gen', args=['-n', str(n)], stdin=None, assignment=asg, text=out, names=names, spec_value=None))
            else:
                res['status'] = 'inconclusive'
                res['error'] = 'a lemma of the decomposition does not hold: "%s"' % nm
        elif q['result'] not in ('sat', 'unsat'):
            res['status'] = 'inconclusive'
            res['error'] = 'solver: %s on "%s"' % (q['result'], nm)
    res['formula_chars'] = len(out)
    res['variables'] = len(names)
    res['sample'] = dict(config=res['config'], method='equivalence through row / column / diagonal lemmas', variables=len(names), obligations=len(obl))
    return res


def main():
    quick = TIER != 'thorough'
    ns = list(range(1, 11)) if quick else list(range(1, 12))      # monolithic equivalence query
    jobs = [('n=%d' % n, tv_unit, ('n=%d' % n, 'n_queens_gen', ['-n', str(n)], None, ('c15', 'spec_for', (n,)), dict(timeout=250 if quick else 2000, check_real_parser=n <= 10))) for n in ns]
    # beyond n = 11 the monolithic query is a pigeonhole problem that z3 does not finish in half an hour; the same
    # equivalence is decided through line lemmas (unit_decomposed), also for two sizes the monolithic query covers
    sound_ns = [9, 11, 12] if quick else [9] + list(range(11, 21))
    jobs += [('n=%d (equivalence through line lemmas)' % n, unit_decomposed, (n, dict(timeout=300 if quick else 1500))) for n in sound_ns]
    for n in (1, 2, 3, 4):
        jobs.append(('n=%d real evaluator' % n, unit_real_eval, (n, {})))
    rep = tv_main(PID, jobs, spec_eval,
                  bounds={'board_sizes': '%d..%d exact model-set equality (real evaluator additionally for n <= 4)%s' % (ns[0], ns[-1], '; through line lemmas: n = %s' % ', '.join(map(str, sound_ns))), 'assignments': 'all 2^(n*n), decided by the solver'},
                  assumptions=['the generator itself runs concretely (one run per board size); only the assignment space is decided symbolically', 'reference front end checks/genlang.py',
                               'specification: exactly n queens and no two on a common row, column or diagonal'],
                  uncovered=['board sizes beyond the bound (n >= 256 overflows the u16 index arithmetic)', 'writing to an output file instead of stdout'])
    sys.exit(rep.finish())


if __name__ == '__main__':
    main()
