#!/usr/bin/env python3
"""C15 - n_queens_gen emits a formula whose models are exactly the n-queens solutions."""
import sys
import z3
from gencore import *   # noqa
import genlang

PID = 'C15'


def attacks(n):
    cells = [(r, c) for r in range(n) for c in range(n)]
    out = []
    for i, (r1, c1) in enumerate(cells):
        for (r2, c2) in cells[i + 1:]:
            if r1 == r2 or c1 == c2 or abs(r1 - r2) == abs(c1 - c2):
                out.append((r1 * n + c1, r2 * n + c2))
    return out


def spec_for(n):
    def spec(tree, env):
        names = ['v_%d' % k for k in range(n * n)]
        problems = []
        used = set(genlang.variables(tree))
        if not used <= set(names):
            problems.append('formula mentions variables outside v_0..v_%d: %s' % (n * n - 1, sorted(used - set(names))[:5]))
        for nm in names:
            env.setdefault(nm, z3.Bool('x_' + nm))
        x = [env[nm] for nm in names]
        placed = z3.Sum([z3.If(v, 1, 0) for v in x]) == n
        noattack = z3.And(*[z3.Not(z3.And(x[a], x[b])) for a, b in attacks(n)]) if n > 1 else z3.BoolVal(True)
        return z3.And(placed, noattack), names, problems
    return spec


def spec_eval(case):
    n = int(case['args'][1])
    on = [k for k in range(n * n) if case['assignment'].get('v_%d' % k)]
    if len(on) != n:
        return False
    return not any(a in on and b in on for a, b in attacks(n))


def unit_real_eval(n, opts):
    """the real evaluator's truth table of the emitted formula == the n-queens solutions (small n)"""
    res = dict(queries=[], method=None)
    rc, out, err = run_gen('n_queens_gen', ['-n', str(n)])
    ans = driver_run(['formula %s - eval' % out.encode().hex()], 'dev', timeout=200)[0]
    d = parse_driver(ans)
    ok = d['status'] == 'ok'
    bad = None
    if ok:
        free = [x.split(':')[0] for x in d['free'].split(',') if x]
        tt = d['tt']
        k = len(free)
        for j in range(1 << k):
            asg = {free[i]: bool((j >> (k - 1 - i)) & 1) for i in range(k)}
            want = spec_eval(dict(args=['-n', str(n)], assignment=asg))
            if (tt[j] == '1') != want:
                bad = asg
                break
    res['queries'].append(dict(name='real rsbdd evaluation of the output lists exactly the n-queens placements (all %d assignments)' % (1 << (n * n)), result='unsat' if ok and bad is None else 'sat',
                               expect='unsat', time=0.0, backend='replay driver + enumeration', size=None))
    if not ok or bad is not None:
        res['cex'] = dict(obligation='real evaluation == solutions', case=dict(kind='gen', generator='n_queens_gen', args=['-n', str(n)], stdin=None, what='real evaluator disagrees at %s (%s)' % (bad, ans[:80])))
    res['sample'] = dict(config=dict(generator='n_queens_gen', args=['-n', str(n)]), real_evaluator='truth table of %d variables compared with brute force' % (n * n))
    return res


def main():
    quick = TIER != 'thorough'
    ns = list(range(1, 11)) if quick else list(range(1, 17))
    jobs = [('n=%d' % n, tv_unit, ('n=%d' % n, 'n_queens_gen', ['-n', str(n)], None, ('c15', 'spec_for', (n,)), dict(timeout=250 if quick else 2000, check_real_parser=n <= 10))) for n in ns]
    for n in (1, 2, 3, 4):
        jobs.append(('n=%d real evaluator' % n, unit_real_eval, (n, {})))
    rep = tv_main(PID, jobs, spec_eval,
                  bounds={'board_sizes': '%d..%d (real evaluator additionally for n <= 4)' % (ns[0], ns[-1]), 'assignments': 'all 2^(n*n), decided by the solver'},
                  assumptions=['the generator itself runs concretely (one run per board size); only the assignment space is decided symbolically', 'reference front end checks/genlang.py',
                               'specification: exactly n queens and no two on a common row, column or diagonal'],
                  uncovered=['board sizes beyond the bound (n >= 256 overflows the u16 index arithmetic)', 'writing to an output file instead of stdout'])
    sys.exit(rep.finish())


if __name__ == '__main__':
    main()
