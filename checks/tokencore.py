"""Token stage (C08 table, C11 ids under an ordering, C12 no panic): the real MIR of SymbolicBDD::tokenize executed
under a contract model of the regex engine.

Contract of `TOKENIZER.captures_iter(text)`: a finite sequence of matches, each with exactly one of the named groups
symbol | countable | reference | identifier | eof | comment set; the matched text of a group is an unknown string in
that group's language (symbol: one of the 20 symbol spellings; countable: 1..24 digits; identifier/reference: 1..8
characters of [A-Za-z0-9_']).  Which texts the regex engine produces for a given input (longest match, alternation
order, separators, comments) is outside this model."""
import z3
from common import *   # noqa
from mirsym.harness import *   # noqa
from mirsym.interp import Outcome, Outs, CellState
from mirsym import models as M
import bddcore
from bddcore import interp_summary, apply_mir_mutation, one_hot

SYMBOLS = {'&': 'And', '*': 'And', '|': 'Or', '+': 'Or', '^': 'Xor', '-': 'Not', '!': 'Not', '=>': 'Implies', '<=': 'ImpliesInv', '<=>': 'Iff', '#': 'Hash',
           '=': 'Eq', '<': 'Lt', '>': 'Gt', '>=': 'Geq', '(': 'OpenParen', ')': 'CloseParen', '[': 'OpenSquare', ']': 'CloseSquare', ',': 'Comma'}
KEYWORDS = {'false': 'False', 'true': 'True', 'not': 'Not', 'and': 'And', 'or': 'Or', 'xor': 'Xor', 'nor': 'Nor', 'nand': 'Nand', 'implies': 'Implies', 'in': 'Implies',
            'iff': 'Iff', 'eq': 'Iff', 'exists': 'Exists', 'any': 'Exists', 'forall': 'Forall', 'all': 'Forall', 'if': 'If', 'then': 'Then', 'else': 'Else',
            'gfp': 'GFP', 'nu': 'GFP', 'lfp': 'LFP', 'mu': 'LFP'}
GROUPS = ['symbol', 'countable', 'reference', 'identifier', 'eof', 'comment']


class CapV:
    """one regex match: which group is set (one-hot guards) and its text"""
    __slots__ = ('group', 'text')
    cells = EMPTY

    def __init__(self, group, text):
        self.group = group
        self.text = text


class MatchV:
    __slots__ = ('text',)
    cells = EMPTY

    def __init__(self, text):
        self.text = text


def word_re():
    ch = z3.Union(z3.Range('a', 'z'), z3.Range('A', 'Z'), z3.Range('0', '9'), z3.Re('_'), z3.Re("'"))
    return z3.Plus(ch)


def capture(name, groups=None, maxlen=8):
    """symbolic capture + its constraints"""
    groups = groups or GROUPS
    sel, cons = one_hot(name + 'g', len(groups))
    g = {gr: False for gr in GROUPS}
    for gr, s in zip(groups, sel):
        g[gr] = s
    t = z3.String(name + 'txt')
    cons.append(z3.Implies(to_bool(g['symbol']), z3.Or(*[t == z3.StringVal(s) for s in SYMBOLS])))
    cons.append(z3.Implies(to_bool(g['countable']), z3.And(z3.InRe(t, z3.Plus(z3.Range('0', '9'))), z3.Length(t) <= 24)))
    cons.append(z3.Implies(z3.Or(to_bool(g['identifier']), to_bool(g['reference'])), z3.And(z3.InRe(t, word_re()), z3.Length(t) <= maxlen)))
    return CapV(g, Str(t)), cons


def install_regex_model(I, caps):
    T = I.models.table

    def read_to_string(I2, fr, a, ck):
        return mk('Result', 0, [0])

    def tok_deref(I2, fr, a, ck):
        return mk_sref(Opaque('Regex'))

    def captures_iter(I2, fr, a, ck):
        return IterV('vals', [Seq(caps), 0])

    def cap_name(I2, fr, a, ck):
        c = I2.peel_all(a[0], fr)
        n = I2.peel_all(a[1], fr)
        if not isinstance(c, CapV) or not isinstance(n, Str) or not isinstance(n.s, str):
            raise EngineError('Captures::name on %s' % type(c).__name__)
        g = c.group.get(n.s, False)
        return M.option(I2, g, MatchV(c.text))

    def match_as_str(I2, fr, a, ck):
        m = I2.peel_all(a[0], fr)
        return mk_sref(m.text)

    def str_parse(I2, fr, a, ck):
        s = I2.peel_all(a[0], fr)
        if isinstance(s.s, str):
            try:
                v = int(s.s)
                ok = s.s.isdigit() and v < (1 << 64)
            except ValueError:
                ok, v = False, 0
            return mk('Result', 0, [v]) if ok else mk('Result', 1, [Opaque('ParseIntError')])
        iv = z3.StrToInt(s.s)
        digits = z3.InRe(s.s, z3.Plus(z3.Range('0', '9')))
        ok = z3.And(digits, iv < z3.IntVal(1 << 64))
        return Adt('Result', {0: (ok, (z3.Int2BV(iv, 64),)), 1: (z3.Not(ok), (Opaque('ParseIntError'),))})
    T[('BufRead', 'Read', 'read_to_string')] = read_to_string
    T[(None, 'Read', 'read_to_string')] = read_to_string
    T[('TOKENIZER', 'Deref', 'deref')] = tok_deref
    T[('Regex', None, 'captures_iter')] = captures_iter
    T[('Captures', None, 'name')] = cap_name
    T[('Match', None, 'as_str')] = match_as_str
    T[('str', None, 'parse')] = str_parse


def expected_token(I, w, cap, idv):
    """documented token for a capture (None when no token is produced); idv = expected id for a new variable"""
    tv = lambda n: I.defs.variant_index('SymbolicBDDToken', n)
    t = cap.text.s
    alts = {}

    def add(kind, g, fs=()):
        if g_false(g):
            return
        i = tv(kind)
        if i in alts:
            alts[i] = (gor(alts[i][0], g), alts[i][1])
        else:
            alts[i] = (g, tuple(fs))
    gs = cap.group
    for s, kd in SYMBOLS.items():
        add(kd, gand(gs['symbol'], t == z3.StringVal(s)))
    iskw = False
    for s, kd in KEYWORDS.items():
        c = t == z3.StringVal(s)
        iskw = gor(iskw, c)
        add(kd, gand(gs['identifier'], c))
    add('Var', gand(gs['identifier'], gnot(iskw)), [mk_struct('NamedSymbol', [mk_rc(cap.text), idv])])
    add('Reference', gs['reference'], [cap.text])
    add('Countable', gs['countable'], [z3.Int2BV(z3.StrToInt(t), 64)])
    add('Eof', gs['eof'])
    return Adt('SymbolicBDDToken', alts), gs['comment']


def unit_token_table(opts):
    """one match of any group with unknown text, no ordering: the pushed token is the documented one"""
    I = load('lib')
    if opts.get('mutate'):
        apply_mir_mutation(I, opts['mutate'])
    groups = opts.get('groups', GROUPS)
    cap, cons = capture('c0', groups)
    install_regex_model(I, [cap])
    outs = I.run('SymbolicBDD', None, 'tokenize', [Opaque('dyn BufRead'), mk('Option', 0, [])], {})
    rets, pc, pm = outcome_split(outs)
    w = None
    exp, nothing = expected_token(I, w, cap, 0)
    res = dict(queries=[], method='tokenize')
    cex = None
    # the documented precondition of the numeric literal: it denotes a usize
    fits = z3.Or(z3.Not(to_bool(cap.group['countable'])), z3.StrToInt(cap.text.s) < z3.IntVal(1 << 64))

    def ask(name, neg, expect='unsat', extra=()):
        nonlocal cex
        q = decide(name, cons + list(extra), neg, timeout_s=opts.get('timeout', 200), prefer='z3')
        q['expect'] = expect
        m = q.pop('model', None)
        res['queries'].append(q)
        if q['result'] == 'sat' and expect == 'unsat' and cex is None:
            m = m or {}
            grp = [g for i, g in enumerate(groups) if m.get('c0g_is%d' % i)]
            cex = dict(obligation=name, case=dict(kind='token', group=grp[0] if grp else groups[0], text=m.get('c0txt', '')))
        elif q['result'] not in ('sat', 'unsat'):
            res['status'] = 'inconclusive'
            res['error'] = 'solver: ' + q['result']
    ask('assumptions-satisfiable', True, 'sat')
    ask('tokenize does not panic on any matched text (numbers of up to 24 digits included)', pc)
    bad = False
    for r in rets:
        v = r.value
        if 1 in v.alts:
            bad = gor(bad, gand(r.guard, v.alts[1][0], fits))          # a documented token is never an error
        if 0 not in v.alts:
            continue
        g = gand(r.guard, v.alts[0][0])
        toks = v.alts[0][1][0]
        n = len(toks.items)
        eof = mk('SymbolicBDDToken', I.defs.variant_index('SymbolicBDDToken', 'Eof'), [])
        ve = Veq(lenient=True)
        if n == 1:
            # only the forced Eof: the match produced no token (comment) or was the eof group
            ok = gand(ve.eq(toks.items[0], eof), gor(nothing, cap.group['eof']))
        elif n == 2:
            ok = gand(ve.eq(toks.items[0], exp), ve.eq(toks.items[1], eof), gnot(nothing), gnot(cap.group['eof']))
        else:
            ok = False
        bad = gor(bad, gand(g, fits, gnot(ok)))
    ask('the token pushed for a match is the documented one (symbols, keywords and aliases, identifiers, numbers, references; forced Eof)', bad)
    res.update(interp_summary(I))
    res['cex'] = cex
    res['sample'] = dict(unit='tokenize: one regex match, groups %s' % groups, text='unknown string in the group\'s language', obligations=[q['name'] for q in res['queries']])
    return res


def unit_token_ids(nid, nord, opts):
    """nid identifier matches with unknown names under an ordering vector of nord symbols (unknown names, unknown
    distinct ids): listed names get their listed id, new names fresh ids above every listed id in order of first
    appearance, equal names equal ids"""
    I = load('lib')
    if opts.get('mutate'):
        apply_mir_mutation(I, opts['mutate'])
    caps, cons = [], []
    for j in range(nid):
        c, cc = capture('c%d' % j, ['identifier'], maxlen=4)
        iskw = z3.Or(*[c.text.s == z3.StringVal(s) for s in KEYWORDS])
        cons += cc + [z3.Not(iskw)]
        caps.append(c)
    install_regex_model(I, caps)
    onames = [z3.String('on%d' % i) for i in range(nord)]
    oids = [z3.BitVec('oid%d' % i, 64) for i in range(nord)]
    for i in range(nord):
        cons.append(z3.And(z3.InRe(onames[i], word_re()), z3.Length(onames[i]) <= 4))
        cons.append(z3.ULT(oids[i], z3.BitVecVal((1 << 64) - 8, 64)))     # id + 1 must not overflow (documented: ids are small)
        for j in range(i):
            cons.append(oids[i] != oids[j])
            cons.append(onames[i] != onames[j])
    ordering = mk('Option', 1, [Seq([mk_struct('NamedSymbol', [mk_rc(Str(onames[i])), oids[i]]) for i in range(nord)])]) if nord else mk('Option', 0, [])
    outs = I.run('SymbolicBDD', None, 'tokenize', [Opaque('dyn BufRead'), ordering], {})
    rets, pc, pm = outcome_split(outs)
    # reference ids
    base = z3.BitVecVal(0, 64)
    for i in range(nord):
        base = z3.If(z3.UGE(oids[i], base), oids[i] + 1, base)
    exp_ids = []
    fresh_count = z3.BitVecVal(0, 64)
    for j in range(nid):
        t = caps[j].text.s
        listed = None
        idv = None
        # earlier occurrence of the same name
        for j2 in range(j - 1, -1, -1):
            pass
        cand = base + fresh_count
        isnew = z3.BoolVal(True)
        val = cand
        for j2 in range(j):
            same = caps[j2].text.s == t
            val = z3.If(same, exp_ids[j2], val)
            isnew = z3.And(isnew, z3.Not(same))
        for i in range(nord):
            same = onames[i] == t
            val = z3.If(same, oids[i], val)
            isnew = z3.And(isnew, z3.Not(same))
        exp_ids.append(val)
        fresh_count = z3.If(isnew, fresh_count + 1, fresh_count)
    res = dict(queries=[], method='tokenize')
    cex = None

    def ask(name, neg, expect='unsat'):
        nonlocal cex
        q = decide(name, cons, neg, timeout_s=opts.get('timeout', 250), prefer='z3')
        q['expect'] = expect
        m = q.pop('model', None)
        res['queries'].append(q)
        if q['result'] == 'sat' and expect == 'unsat' and cex is None:
            m = m or {}
            cex = dict(obligation=name, case=dict(kind='tokenids', names=[m.get('c%dtxt' % j, 'x') for j in range(nid)],
                                                  ordering=[[m.get('on%d' % i, 'o'), m.get('oid%d' % i, 0)] for i in range(nord)]))
        elif q['result'] not in ('sat', 'unsat'):
            res['status'] = 'inconclusive'
            res['error'] = 'solver: ' + q['result']
    ask('assumptions-satisfiable', True, 'sat')
    ask('tokenize does not panic', pc)
    bad = False
    for r in rets:
        v = r.value
        if 1 in v.alts:
            bad = gor(bad, gand(r.guard, v.alts[1][0]))
        if 0 not in v.alts:
            continue
        g = gand(r.guard, v.alts[0][0])
        toks = v.alts[0][1][0].items
        if len(toks) != nid + 1:
            bad = gor(bad, g)
            continue
        ok = True
        vi = I.defs.variant_index('SymbolicBDDToken', 'Var')
        for j in range(nid):
            tk = toks[j]
            if vi not in tk.alts:
                ok = False
                break
            gv, (sym,) = tk.alts[vi]
            name, idv = sym.alts[0][1]
            ok = gand(ok, gv, Veq().eq(idv, exp_ids[j]), Veq().eq(name.inner, caps[j].text))
        bad = gor(bad, gand(g, gnot(ok)))
    ask('ids: a listed name gets its listed id, a new name the next fresh id above all listed ids, equal names equal ids', bad)
    res.update(interp_summary(I))
    res['cex'] = cex
    res['sample'] = dict(unit='tokenize: %d identifier matches, ordering of %d symbols' % (nid, nord), names='unknown strings (<= 4 chars)', ordering='unknown names, unknown distinct 64-bit ids',
                         obligations=[q['name'] for q in res['queries']])
    return res


def jobs(quick, which=('table', 'ids')):
    js = []
    if 'table' in which:
        for grp in (['symbol'], ['identifier'], ['countable'], ['reference', 'eof', 'comment']):
            js.append(('tokenize: one match of group %s' % '/'.join(grp), unit_token_table, (dict(groups=grp),)))
    if 'ids' in which:
        for nid, nord in ((1, 0), (2, 0), (3, 0), (1, 1), (2, 1), (2, 2)) + (() if quick else ((3, 1), (3, 2))):
            js.append(('tokenize: %d identifiers, ordering of %d' % (nid, nord), unit_token_ids, (nid, nord, {})))
    return js


def token_text(case):
    g, t = case['group'], case['text']
    return ('{%s}' % t) if g == 'reference' else (('"%s"' % t) if g == 'comment' else ('' if g == 'eof' else t))


def replay_token(rep, pid, name, cex):
    case = cex['case']
    if case['kind'] == 'token':
        text = token_text(case)
        line = 'tokens %s -' % (text.encode().hex() or '20')
        ans = driver_run([line], 'dev', timeout=30)[0]
        want = None
        if case['group'] == 'symbol':
            want = SYMBOLS.get(case['text'])
        elif case['group'] == 'identifier':
            want = KEYWORDS.get(case['text'], 'Var')
        elif case['group'] == 'countable':
            want = 'Countable(%d)' % int(case['text']) if int(case['text']) < (1 << 64) else None
        elif case['group'] == 'reference':
            want = 'Reference'
        viol, desc = None, ans[:120]
        if ans.startswith('panic'):
            viol, desc = True, 'panic: ' + ans[6:120]
        elif ans.startswith('ok') and want is not None:
            first = ans.split()[1] if len(ans.split()) > 1 else ''
            viol = not first.startswith(want)
            desc = 'tokens %s, documented %s' % (ans[3:80], want)
        elif ans.startswith('err') and want is not None:
            viol, desc = True, 'documented token rejected: ' + ans[:80]
        case.update(obligation=cex['obligation'], unit=name, driver_line=line, replay={'dev': {'violates': viol, 'what': desc, 'driver_answer': ans[:300]}})
        path = save_replay(pid, case)
        if viol:
            key = 'token:%s:%s' % (case['group'], 'panic' if desc.startswith('panic') else 'wrong')
            rep.violations.append((key, 'text `%s`: %s' % (text, desc), path))
            print('CONFIRMED `%s`: %s' % (text, desc))
        else:
            rep.inconclusive.append('%s: token counterexample `%s` did not reproduce (%s)' % (name, text, desc))
        return
    if case['kind'] == 'tokenids':
        text = ' '.join(case['names'])
        ordering = ','.join('%s:%d' % (n, i) for n, i in case['ordering']) or '-'
        line = 'tokens %s %s' % (text.encode().hex(), ordering)
        ans = driver_run([line], 'dev', timeout=30)[0]
        # reference ids
        ids = {}
        for n, i in case['ordering']:
            ids[n] = i
        nxt = (max([i for n, i in case['ordering']]) + 1) if case['ordering'] else 0
        want = []
        for n in case['names']:
            if n not in ids:
                ids[n] = nxt
                nxt += 1
            want.append('Var(%s:%d)' % (n, ids[n]))
        got = ans.split()[1:-1] if ans.startswith('ok') else []
        viol = ans.startswith('panic') or (ans.startswith('ok') and got != want)
        desc = ('panic: ' + ans[6:100]) if ans.startswith('panic') else 'tokens %s, documented %s' % (got, want)
        case.update(obligation=cex['obligation'], unit=name, driver_line=line, replay={'dev': {'violates': viol, 'what': desc, 'driver_answer': ans[:300]}})
        path = save_replay(pid, case)
        if viol:
            rep.violations.append(('tokenids:%s' % ('panic' if desc.startswith('panic') else 'wrong'), 'names %s under ordering %s: %s' % (case['names'], case['ordering'], desc), path))
            print('CONFIRMED %s: %s' % (line, desc))
        else:
            rep.inconclusive.append('%s: id counterexample did not reproduce (%s)' % (name, desc))
