#!/usr/bin/env python3
"""C11 - variable ordering changes the shape of the answer, never its meaning.

 * tokenizer under an ordering vector (real MIR, regex contract model): a listed name gets its listed id, a new name a
   fresh id above all listed ids in order of first appearance, equal names equal ids (unknown names, unknown distinct ids);
 * the evaluator is verified for every id assignment at once (ids are symbolic ordered atoms in every C01 sketch): the
   answer is the canonical diagram of the same function of the same variables whatever the ids are;
 * to_free_index maps every free variable to its column for arbitrary, also non-contiguous, ids (orderings that are
   supersets of the formula's variables); constructor: vars / free_vars sorted by id;
 * the -o reader and -r of the binary (maincore.py): the real MIR of `main` under `-o <file>` for a family of concrete
   file texts (permutations, subsets, supersets, repetitions, several names per line, punctuation) with the formula a
   symbolic sketch over the named variables: the vector main hands to the parser must list the file's distinct names
   in file order with strictly increasing ids; then header, rows and -r output are checked by name against the
   reference semantics (tokenizer replaced by its contract: listed names keep their id, new names follow)."""
import sys
from runner import *   # noqa
import props
import bddcore
import printcore
import tokencore
import evalcore
import c09
import maincore

PID = 'C11'


def main():
    quick = TIER != 'thorough'
    lemma, st = props.units_for('C02', quick)
    jobs = tokencore.jobs(quick, which=('ids',))
    for sh in [('bin', 'L', 'L'), ('q', 1, ('bin', 'L', 'L')), ('cc', ('L', 'L', 'L')), ('fp', ('bin', 'L', 'L')), ('cv', ('L', 'L'), ('L',))]:
        jobs.append(('to_free_index %r k=3' % (sh,), printcore.unit_free_index, (sh, 3, {})))
        jobs.append(('constructor %r k=3' % (sh,), c09.unit_constructor, (sh, 3, {})))
        jobs.append(('eval %r k=3 (any ids)' % (sh,), evalcore.unit_sketch, (sh, 3, {})))
    for k in (2, 3):
        jobs.append(('print_truth_table_recursive k=%d (any ids)' % k, printcore.unit_print_table, (k, {})))
    jobs += maincore.jobs_ordering(quick)
    jobs.append(('<BDD as PartialEq>::eq on canonical diagrams k=3', bddcore.unit_bdd_eq, (3, {})))
    rep = run_property(PID, lemma, ['and', 'or', 'not'], [],
                       bounds={'ordering_vector': '<= 2 symbols (3 thorough) with unknown names and unknown distinct 64-bit ids', 'identifiers': '<= 3 matches with unknown names',
                               'atoms_k': 3, 'ordering_files': '%d concrete texts (%d thorough)' % (len(maincore.ORDERINGS), len(maincore.ORDERINGS) + len(maincore.ORDERINGS_MORE))},
                       assumptions=props.COMMON_ASSUME + ['regex engine modelled by its contract (see C08)'],
                       uncovered=['ordering files beyond the listed family of texts; formulas with more than one variable that the file does not list (their relative order depends on the sketch; covered at library level with symbolic ids)', 'the -r | -o round trip as one run (both halves are checked against the specification separately)', 'what the tokenizer makes of stray punctuation in the file (regex engine: modelled by its contract)'],
                       extra_jobs=jobs)
    sys.exit(rep.finish())


if __name__ == '__main__':
    main()
