#!/usr/bin/env python3
"""C10 - the printed truth table is a faithful partition of the assignment space.

The real MIR of print_truth_table_recursive (src/bin/rsbdd.rs) runs on the canonical diagram of an unknown truth table
over k free variables with an unknown filter and the ParsedFormula built by the real constructor (ids are symbolic
atoms: permutations / supersets of an ordering only change ids).  print_sized_line is replaced by a recorder of row
events (entries, result leaf).  For a symbolic total assignment the number of recorded rows covering it is 1 when the
filter admits the diagram's value and 0 otherwise, and the covering row reports that value.  -v: the real MIR of
print_true_vars_recursive with String concatenation / join / format! executed on concrete header names; the recorded lines
must cover exactly the satisfying assignments, each once (k <= 2).

Whole-program clause (maincore.py): the real MIR of `main` runs under one concrete command line at a time (-e / file /
stdin, -t, -v, -m, -r, -f <unknown>, -b 1..3) with the formula a symbolic sketch; clap, the file system, the tokenizer
and the parser are replaced by their contracts, the printing primitives by recorders.  Obligations over the recorded
stdout: header = free variables in variable order, rows partition the assignment space as the filter says, -r lists the
variables in variable order, -v is called on the evaluated diagram, the same for every -b N (each N is checked against
the specification, not against N = 1), and - because the operation contracts rely on it - the unique table still holds
both terminals and key == *value on entry of every evaluation, whatever main did to it in between."""
import sys
from runner import *   # noqa
import props
import bddcore
import printcore
import c09
import tokencore
import maincore

PID = 'C10'


def main():
    quick = TIER != 'thorough'
    lemma, st = props.units_for('C02', quick)
    jobs = printcore.jobs(quick)
    for k in (1, 2, 3):
        jobs.append(('model then print k=%d' % k, printcore.unit_print_model, (k, {})))
    for sh in [('bin', 'L', 'L'), ('q', 1, ('bin', 'L', 'L')), ('q', 2, ('bin', 'L', 'L')), ('q', 2, ('bin', 'L', ('bin', 'L', 'L'))), ('cc', ('L', 'L', 'L'))]:
        jobs.append(('constructor (header = free variables in variable order) %r k=3' % (sh,), c09.unit_constructor, (sh, 3, {})))
    jobs += maincore.jobs_output(quick)
    jobs.append(('<BDD as PartialEq>::eq on canonical diagrams k=3', bddcore.unit_bdd_eq, (3, {})))
    jobs.append(('selftest:rows for the false branch marked True', printcore.unit_print_table, (2, dict(mutate=('print_truth_table_recursive', '_13 = rsbdd::TruthTableEntry::False', '_13 = rsbdd::TruthTableEntry::True')))))
    rep = run_property(PID, lemma, ['and', 'or', 'not'], [],
                       bounds={'free_variables_k': '1..3 (4 thorough)', 'diagram': 'every function of k variables (unknown truth table)', 'filter': 'unknown: True / False / Any',
                               'ids': 'symbolic atoms (orderings only change ids)', 'filter_spellings': 'from_str on an unknown string of <= 6 characters', 'main': 'command lines: {-e, file, stdin} x {-t, -v, -m, -r} x -f unknown x -b 1..3; formula sketches with 2 leaves / one quantifier over them (thorough: ite, nested, counting, fixed point, 2 binders), k <= 3 variables'},
                       assumptions=props.COMMON_ASSUME + ['print_sized_line / print_header / println! replaced by recorders of (entries, leaf) / header / line events: the text layout is not modelled', 'main-level units: Args::parse_from returns the Args value of the configuration; File::open / stdin / BufReader are tagged sources; SymbolicBDD::tokenize and parse_formula are replaced by their contracts (sketch tokens / tree; C08, C11); Instant, eprintln!, print_performance_results are no-ops'],
                       uncovered=['padding / column widths (print_sized_line / print_header are recorders)', 'clap option parsing itself (main starts from the Args value)', 'the bytes of the three input channels (main is checked to hand the channel the command line names to the parser; what the tokenizer reads from it is C08)', '-b N beyond 3',
                                  '-v (print_true_vars_recursive) beyond 2 free variables (the number of distinct outputs explodes)'],
                       extra_jobs=jobs)
    sys.exit(rep.finish())


if __name__ == '__main__':
    main()
