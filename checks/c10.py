#!/usr/bin/env python3
"""C10 - the printed truth table is a faithful partition of the assignment space.

The real MIR of print_truth_table_recursive (src/bin/rsbdd.rs) runs on the canonical diagram of an unknown truth table
over k free variables with an unknown filter and the ParsedFormula built by the real constructor (ids are symbolic
atoms: permutations / supersets of an ordering only change ids).  print_sized_line is replaced by a recorder of row
events (entries, result leaf).  For a symbolic total assignment the number of recorded rows covering it is 1 when the
filter admits the diagram's value and 0 otherwise, and the covering row reports that value.  -v: the real MIR of
print_true_vars_recursive with String concatenation / join / format! executed on concrete header names; the recorded lines
must cover exactly the satisfying assignments, each once (k <= 2)."""
import sys
from runner import *   # noqa
import props
import bddcore
import printcore
import c09
import tokencore

PID = 'C10'


def main():
    quick = TIER != 'thorough'
    lemma, st = props.units_for('C02', quick)
    jobs = printcore.jobs(quick)
    for k in (1, 2, 3):
        jobs.append(('model then print k=%d' % k, printcore.unit_print_model, (k, {})))
    for sh in [('bin', 'L', 'L'), ('q', 1, ('bin', 'L', 'L')), ('q', 2, ('bin', 'L', 'L')), ('q', 2, ('bin', 'L', ('bin', 'L', 'L'))), ('cc', ('L', 'L', 'L'))]:
        jobs.append(('constructor (header = free variables in variable order) %r k=3' % (sh,), c09.unit_constructor, (sh, 3, {})))
    jobs.append(('selftest:rows for the false branch marked True', printcore.unit_print_table, (2, dict(mutate=('print_truth_table_recursive', '_13 = rsbdd::TruthTableEntry::False', '_13 = rsbdd::TruthTableEntry::True')))))
    rep = run_property(PID, lemma, ['and', 'or', 'not'], [],
                       bounds={'free_variables_k': '1..3 (4 thorough)', 'diagram': 'every function of k variables (unknown truth table)', 'filter': 'unknown: True / False / Any',
                               'ids': 'symbolic atoms (orderings only change ids)', 'filter_spellings': 'from_str on an unknown string of <= 6 characters'},
                       assumptions=props.COMMON_ASSUME + ['print_sized_line / println! replaced by a recorder of (entries, leaf) events: the text layout is not modelled'],
                       uncovered=['padding / column widths / the header text itself', 'clap option parsing', 'equality of the three input channels (--evaluate, file, stdin) and -b N: whole-program I/O (the -b loop only repeats eval; history independence is C13)',
                                  '-v (print_true_vars_recursive) beyond 2 free variables (the number of distinct outputs explodes)'],
                       extra_jobs=jobs)
    sys.exit(rep.finish())


if __name__ == '__main__':
    main()
