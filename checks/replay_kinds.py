"""`./check <ID> --replay <path>`: re-run a stored counterexample of any kind against the tree under test.
exit 1: the violation reproduces; 0: it does not (any more); 2: it cannot be replayed here."""
import os
import sys
from runner import *   # noqa


class MiniReport:
    def __init__(self):
        self.violations = []
        self.inconclusive = []
        self.extra = {}


def replay(case):
    kind = case.get('kind')
    path = case.get('__path__', '')
    pid = os.path.basename(path)[:3] if path else 'C00'
    rep = MiniReport()
    name = case.get('unit', 'replay')
    cex = dict(obligation=case.get('obligation', 'replay'), case=case)
    if kind == 'gen':
        import gencore
        import importlib
        mod = importlib.import_module(pid.lower())
        # the stored text is what the generator printed when the case was found: print it again with the tree under test
        rc, out, err = gencore.run_gen(case['generator'], case['args'], case.get('stdin'))
        if rc != 0 or not out:
            print('the generator does not print a formula for this input any more (rc=%s): %s' % (rc, (err or '')[-200:]))
            return 0 if 'assignment' in case else 1
        case['text'] = gencore.strip_comments(out) if hasattr(gencore, 'strip_comments') and False else out
        gencore.confirm_gen(rep, pid, name, cex, mod.spec_eval)
    elif kind == 'rggrun':
        import c18
        a = case['args']
        if a and a[0] == '--convert' or '--colors' in a:
            print('stored for the record; re-run ./check C18 to re-decide (the input graph is in the case)')
            return 2
        V = int(a[0])
        E = int(a[1]) if len(a) > 1 and a[1].isdigit() else None
        r = c18.unit_request(V, E, '-u' in a, '--complete' in a, {})
        if r.get('cex'):
            print('CONFIRMED random_graph_gen %s: %s' % (' '.join(a), r['cex']['case']['what']))
            return 1
        print('NOT-REPRODUCED random_graph_gen %s' % ' '.join(a))
        return 0
    else:
        if case.get('op') and 'shared=' in str(case.get('driver_answer', '')) or case.get('sharing'):
            cex['sharing'] = True
        route_replay(rep, pid, name, cex)
    for v in rep.violations:
        print('VIOLATION-REPRODUCED %s: %s' % (v[0], v[1][:300]))
    for x in rep.inconclusive:
        print('NOT-REPRODUCED %s' % x[:300])
    return 1 if rep.violations else 0
