#!/usr/bin/env python3
"""C18 - random_graph_gen outputs the graph that was asked for.

 * generate_graph(V, E, undirected): the real MIR from the random_graph_gen binary, V in 0..3 concrete, E an unknown
   usize, `undirected` an unknown Boolean, thread_rng opaque and **shuffle an unknown permutation** (one-hot matrix with
   row/column constraints): Err exactly when E exceeds the number of candidate pairs, otherwise exactly E pairwise
   distinct edges between distinct vertices v0..v(V-1), with -u no pair in both orientations - for every permutation;
 * --convert / read_graph and --colors / augment_colors are validated through the real binary on every small input
   graph: for --convert the output must be the input list minus reversed duplicates (under -u); for --colors k the solver
   decides "the output graph has a clique covering every input vertex" and "the input graph is properly k-colourable"
   (two independent encodings) and the answers must agree."""
import itertools
import random
import sys
import z3
from common import *   # noqa
from mirsym.harness import *   # noqa
from mirsym.interp import Outcome, Outs
from mirsym import models as M
import bddcore
from bddcore import interp_summary, apply_mir_mutation
import gencore

PID = 'C18'


def install_models(I, cons):
    T = I.models.table

    def thread_rng(I2, fr, a, ck):
        return Opaque('ThreadRng')

    def shuffle(I2, fr, a, ck):
        r = a[0]
        s = I2.peel_all(r, fr)
        n = len(s.items)
        if n <= 1:
            return UNIT
        P = [[z3.Bool('perm_%d_%d' % (p, q)) for q in range(n)] for p in range(n)]
        for p in range(n):
            cons.append(z3.PbEq([(P[p][q], 1) for q in range(n)], 1))
            cons.append(z3.PbEq([(P[q][p], 1) for q in range(n)], 1))
        out = []
        for p in range(n):
            v = s.items[n - 1]
            for q in range(n - 2, -1, -1):
                v = merge(P[p][q], s.items[q], v)
            out.append(v)
        M.write_mref(I2, fr, r, Seq(out))
        return UNIT

    def anyhow_msg(I2, fr, a, ck):
        return Opaque('anyhow::Error')
    T[(None, None, 'thread_rng')] = thread_rng
    T[('slice', 'SliceRandom', 'shuffle')] = shuffle
    T[('error', None, 'msg')] = anyhow_msg
    T[('Error', None, 'msg')] = anyhow_msg


def unit_generate(V, opts):
    I = load('random_graph_gen')
    if opts.get('mutate'):
        apply_mir_mutation(I, opts['mutate'])
    cons = []
    install_models(I, cons)
    E = z3.BitVec('E', 64)
    und = z3.Bool('undirected')
    it = I.by_key.get((None, None, 'generate_graph'))
    if it is None:
        raise Unsupported('generate_graph not found')
    outs = I.call_item(it, [V, E, und], {})
    rets, pc, pm = outcome_split(outs)
    names = ['v%d' % i for i in range(V)]
    ncand = lambda u: (V * (V - 1) // 2) if u else V * (V - 1)
    cand = z3.If(und, z3.BitVecVal(ncand(True), 64), z3.BitVecVal(ncand(False), 64))
    feasible = z3.ULE(E, cand)
    res = dict(queries=[], method=None, outcomes=len(rets))
    bad_err = bad_edges = False
    for r in rets:
        v = r.value
        if not isinstance(v, Adt) or v.ty != 'Result':
            raise EngineError('generate_graph returned %s' % type(v).__name__)
        gerr = v.alts[1][0] if 1 in v.alts else False
        gok = v.alts[0][0] if 0 in v.alts else False
        bad_err = gor(bad_err, gand(r.guard, gnot(beq(gerr, gnot(feasible)))))
        if 0 in v.alts and not g_false(gok):
            edges = v.alts[0][1][0]
            n = len(edges.items)
            g = gand(r.guard, gok)
            # exactly E edges
            ok = (E == z3.BitVecVal(n, 64))
            pairs = []
            for e in edges.items:
                a, b = e.alts[0][1]
                pairs.append((a, b))
                # endpoints are distinct vertices among v0..v(V-1)
                isv = lambda x: gor(*[Veq().eq(x, Str(nm)) for nm in names])
                ok = gand(ok, isv(a), isv(b), gnot(Veq().eq(a, b)))
            for i in range(n):
                for j in range(i + 1, n):
                    same = gand(Veq().eq(pairs[i][0], pairs[j][0]), Veq().eq(pairs[i][1], pairs[j][1]))
                    rev = gand(Veq().eq(pairs[i][0], pairs[j][1]), Veq().eq(pairs[i][1], pairs[j][0]))
                    ok = gand(ok, gnot(same), gor(gnot(und), gnot(rev)))
            bad_edges = gor(bad_edges, gand(g, gnot(ok)))
    cex = None

    def ask(name, neg, expect='unsat'):
        nonlocal cex
        q = decide(name, cons, neg, timeout_s=opts.get('timeout', 250), prefer='z3')
        q['expect'] = expect
        m = q.pop('model', None)
        res['queries'].append(q)
        if q['result'] == 'sat' and expect == 'unsat' and cex is None:
            m = m or {}
            cex = dict(obligation=name, case=dict(kind='rgg', V=V, E=m.get('E', 0), undirected=bool(m.get('undirected'))))
        elif q['result'] not in ('sat', 'unsat'):
            res['status'] = 'inconclusive'
            res['error'] = 'solver: ' + q['result']
    ask('assumptions-satisfiable (a permutation exists)', True, 'sat')
    ask('generate_graph does not panic', pc)
    ask('the request is refused (Err) exactly when E exceeds the number of candidate pairs', bad_err)
    ask('otherwise exactly E pairwise distinct edges between distinct vertices (no pair in both orientations under -u), for every permutation', bad_edges)
    res.update(interp_summary(I))
    res['cex'] = cex
    res['sample'] = dict(unit='generate_graph V=%d' % V, E='unknown usize', undirected='unknown', shuffle='unknown permutation of the %d / %d candidate edges' % (ncand(False), ncand(True)),
                         obligations=[q['name'] for q in res['queries']])
    return res


# ------------------------------------------------------------------------------------------------ through the binary

def run_rgg(args, stdin_text=None):
    return gencore.run_gen('random_graph_gen', args, stdin_text)


def parse_edges(out):
    return [tuple(x.strip() for x in l.strip().split(',')) for l in out.strip().split('\n') if l.strip()]


def unit_request(V, E, und, complete, opts):
    """one concrete request through the binary: the printed edge list obeys the specification"""
    args = [str(V)] + ([str(E)] if E is not None else []) + (['-u'] if und else []) + (['--complete'] if complete else [])
    rc, out, err = run_rgg(args)
    ncand = (V * (V - 1) // 2) if und else V * (V - 1)
    want_err = (E is not None and not complete and E > ncand)
    res = dict(queries=[], method=None)
    problem = None
    if rc is None:
        problem = 'timeout'
    elif want_err:
        if rc == 0:
            problem = 'infeasible request accepted: printed %d edges' % len(parse_edges(out))
        elif 'panicked' in err:
            problem = 'panic instead of an error: ' + err.strip().split('\n')[0][:120]
    else:
        if rc != 0:
            problem = 'feasible request refused: ' + err[-120:]
        else:
            es = parse_edges(out)
            n = ncand if complete else E
            names = {'v%d' % i for i in range(V)}
            if len(es) != n:
                problem = 'printed %d edges, asked for %d' % (len(es), n)
            elif len(set(es)) != len(es):
                problem = 'duplicate edges'
            elif any(len(e) != 2 or e[0] == e[1] or e[0] not in names or e[1] not in names for e in es):
                problem = 'edge with bad endpoints: %s' % es[:3]
            elif und and any((b, a) in es for a, b in es):
                problem = 'a pair appears in both orientations under -u'
    res['queries'].append(dict(name='request %s obeys the specification' % ' '.join(args), result='sat' if problem else 'unsat', expect='unsat', time=0.0, backend='run + check', size=None))
    if problem:
        res['cex'] = dict(obligation='request obeys the specification', case=dict(kind='rggrun', args=args, what=problem))
    res['sample'] = dict(config=args, outcome=problem or 'ok')
    return res


def unit_convert(edges, und, opts):
    import tempfile, os
    d = tempfile.mkdtemp(dir=tmpdir())
    f = os.path.join(d, 'g.csv')
    open(f, 'w').write(''.join('%s,%s\n' % e for e in edges))
    args = ['--convert', f] + (['-u'] if und else [])
    rc, out, err = run_rgg(args)
    want = []
    for a, b in edges:
        if not (und and (b, a) in want):
            want.append((a, b))
    got = parse_edges(out) if rc == 0 else None
    problem = None if got == want else 'printed %s, expected %s (rc=%s)' % (got, want, rc)
    res = dict(queries=[dict(name='--convert reproduces the edge list (merging reversed duplicates under -u)', result='sat' if problem else 'unsat', expect='unsat', time=0.0, backend='run + check', size=None)], method=None)
    if problem:
        res['cex'] = dict(obligation='convert', case=dict(kind='rggrun', args=['--convert', ';'.join('%s,%s' % e for e in edges)] + (['-u'] if und else []), what=problem))
    res['sample'] = dict(config=dict(convert=edges, undirected=und), outcome=problem or 'ok')
    return res


def greedy_groups(items, related):
    """greedy partition of items into groups whose members are pairwise `related`"""
    groups = []
    for x in items:
        for g in groups:
            if all(related(x, y) for y in g):
                g.append(x)
                break
        else:
            groups.append([x])
    return groups


def unit_colors(edges, k, opts):
    """--convert g --colors k: output has a clique covering every input vertex  <=>  input is k-colourable"""
    import tempfile, os
    d = tempfile.mkdtemp(dir=tmpdir())
    f = os.path.join(d, 'g.csv')
    open(f, 'w').write(''.join('%s,%s\n' % e for e in edges))
    gen = opts.get('generate')
    if gen:
        # a generated graph whose edge set is known although the order is random: the complete graph on v0..v(V-1)
        cmd = [str(gen[0]), '--complete', '--colors', str(k)] + (['-u'] if gen[1] else [])
    else:
        cmd = ['--convert', f, '--colors', str(k), '-u']
    rc, out, err = run_rgg(cmd)
    res = dict(queries=[], method=None)
    if rc != 0:
        res['cex'] = dict(obligation='colors', case=dict(kind='rggrun', args=['--colors', str(k), str(edges)], what='failed rc=%s %s' % (rc, err[-100:])))
        res['queries'].append(dict(name='colouring conversion runs', result='sat', expect='unsat', time=0.0, backend='run', size=None))
        return res
    oe = parse_edges(out)
    verts = sorted({x for e in edges for x in e})
    overts = sorted({x for e in oe for x in e})
    # (1) clique in the output graph covering every input vertex: pick output vertices; chosen ones pairwise adjacent;
    #     every input vertex has a chosen copy  (copy <-> original by the name prefix before _c<colour>)
    pick = {v: z3.Bool('pick_' + v) for v in overts}
    adj = set(oe) | {(b, a) for a, b in oe}
    s1 = z3.SolverFor('QF_FD')
    for a, b in itertools.combinations(overts, 2):
        if (a, b) not in adj:
            s1.add(z3.Or(z3.Not(pick[a]), z3.Not(pick[b])))
    # implied cardinality constraints (they follow from the clauses above, and keep pigeonhole-like instances easy):
    # a greedy partition of the output vertices into independent sets, at most one pick per set
    for grp in greedy_groups(overts, lambda a, b: (a, b) not in adj):
        if len(grp) > 2:
            s1.add(z3.PbLe([(pick[v], 1) for v in grp], 1))
    orig = lambda ov: ov.rsplit('_c', 1)[0]
    for v in verts:
        copies = [pick[o] for o in overts if orig(o) == v]
        s1.add(z3.Or(*copies) if copies else z3.BoolVal(False))
    t0 = time.time()
    r1 = s1.check()
    # (2) proper k-colouring of the input graph (self loops make it uncolourable)
    s2 = z3.SolverFor('QF_FD')
    col = {v: [z3.Bool('col_%s_%d' % (v, c)) for c in range(k)] for v in verts}
    eset = {(a, b) for a, b in edges if a != b} | {(b, a) for a, b in edges if a != b}
    for grp in greedy_groups(verts, lambda a, b: (a, b) in eset):
        if len(grp) > 2:
            for c in range(k):
                s2.add(z3.PbLe([(col[v][c], 1) for v in grp], 1))      # implied: a clique uses a colour at most once
    for v in verts:
        s2.add(z3.PbEq([(x, 1) for x in col[v]], 1) if k else z3.BoolVal(False))
    for a, b in edges:
        if a == b:
            continue
        for c in range(k):
            s2.add(z3.Or(z3.Not(col[a][c]), z3.Not(col[b][c])))
    r2 = s2.check()
    agree = (r1 == r2)
    res['queries'].append(dict(name='covering clique in the output exists (%s) <=> input is %d-colourable (%s)' % (r1, k, r2), result='unsat' if agree else 'sat', expect='unsat',
                               time=time.time() - t0, backend='z3 (two independent encodings)', size=None))
    if not agree:
        res['cex'] = dict(obligation='colors', case=dict(kind='rggrun', args=(cmd if gen else ['--convert', ';'.join('%s,%s' % e for e in edges), '--colors', str(k)]),
                                                         what='covering clique: %s, %d-colourable: %s' % (r1, k, r2)))
    res['sample'] = dict(config=dict(edges=edges, colors=k), covering_clique=str(r1), colourable=str(r2))
    return res


def main():
    quick = TIER != 'thorough'
    rnd = random.Random(SEED)
    rep = Report(PID)
    jobs = []
    for V in ((0, 1, 2, 3) if quick else (0, 1, 2, 3, 4)):
        jobs.append(('generate_graph V=%d (symbolic E, -u, permutation)' % V, unit_generate, (V, dict(timeout=250 if quick else 3000))))
    jobs.append(('selftest:undirected candidates include both orientations', unit_generate, (3, dict(mutate=('generate_graph', 'switchInt(copy _3) -> [0: bb36, otherwise: bb14]', 'switchInt(copy _3) -> [0: bb36, otherwise: bb36]')))))
    # requests through the real binary (argument handling incl. --complete)
    for V in range(0, 5):
        for und in (False, True):
            nc = (V * (V - 1) // 2) if und else V * (V - 1)
            for E in sorted({0, 1, nc - 1, nc, nc + 1, nc * 2 + 1}):
                if E >= 0:
                    jobs.append(('request V=%d E=%d%s' % (V, E, ' -u' if und else ''), unit_request, (V, E, und, False, {})))
            if V >= 1:
                jobs.append(('request V=%d --complete%s' % (V, ' -u' if und else ''), unit_request, (V, None, und, True, {})))
    names = ['a', 'b', 'c']
    pairs = [(x, y) for x in names for y in names if x != y]
    graphs = [[]]
    for r in (1, 2, 3):
        for es in itertools.combinations(pairs, r):
            graphs.append(list(es))
    graphs += [[('a', 'b'), ('a', 'c'), ('b', 'a')], [('a', 'b'), ('b', 'c'), ('c', 'a'), ('b', 'a')], [('a', 'b'), ('a', 'b')], [('a', 'b'), ('c', 'd'), ('b', 'a'), ('d', 'c'), ('a', 'c')]]
    sel = graphs if not quick else [g for g in graphs if len(g) <= 2] + rnd.sample([g for g in graphs if len(g) > 2], 12) + graphs[-4:]
    for g in sel:
        if not g:
            continue
        for und in (False, True):
            jobs.append(('convert %s%s' % (';'.join('%s,%s' % e for e in g), ' -u' if und else ''), unit_convert, (g, und, {})))
    und_graphs = [[('a', 'b')], [('a', 'b'), ('b', 'c')], [('a', 'b'), ('b', 'c'), ('a', 'c')], [('a', 'b'), ('c', 'd')], [('a', 'b'), ('b', 'c'), ('c', 'd'), ('d', 'a')],
                  [('a', 'b'), ('b', 'c'), ('a', 'c'), ('c', 'd')], [('a', 'b'), ('b', 'a')], [('a', 'b'), ('a', 'c'), ('a', 'd'), ('b', 'c'), ('b', 'd'), ('c', 'd')]]
    for g in und_graphs:
        for k in (1, 2, 3):
            jobs.append(('colors k=%d %s' % (k, ';'.join('%s,%s' % e for e in g)), unit_colors, (g, k, {})))
    # --colors on *generated* graphs (not --convert): the complete graph is the one request whose edge set is known
    for V, ks in ((2, (1, 2)), (3, (2, 3)), (4, (3, 4)), (11, (1, 10, 11))) + (() if quick else ((5, (4, 5)), (10, (9, 10)), (12, (2, 12)))):
        comp = [('v%d' % i, 'v%d' % j) for i in range(V) for j in range(i + 1, V)]
        for und in (True, False):
            for k in ks:
                jobs.append(('colors k=%d on generated %d --complete%s' % (k, V, ' -u' if und else ''), unit_colors, (comp, k, dict(generate=(V, und)))))
    results = run_units(jobs)
    st = {}
    for name in list(results):
        if name.startswith('selftest:'):
            r = results.pop(name)
            caught = any(q['result'] == 'sat' and q.get('expect') == 'unsat' for q in r.get('queries', []))
            st[name] = 'mutant detected (sat)' if caught else ('not applicable: %s' % r.get('error') if 'pattern not found' in str(r.get('error')) else 'MUTANT NOT DETECTED (%s)' % r.get('error'))
            if st[name].startswith('MUTANT NOT'):
                rep.inconclusive.append(name + ': seeded MIR mutation not detected')
    rep.selftest = st
    rep.absorb(results)
    for name, r in sorted(results.items()):
        cex = r.get('cex')
        if not cex:
            continue
        case = cex['case']
        if case['kind'] == 'rgg':
            # replay through the binary (several runs: the permutation is the generator's own randomness)
            args = [str(case['V']), str(case['E'])] + (['-u'] if case['undirected'] else [])
            bad = None
            for _ in range(20):
                rr = unit_request(case['V'], case['E'], case['undirected'], False, {})
                if rr.get('cex'):
                    bad = rr['cex']['case']['what']
                    break
            path = save_replay(PID, dict(case, obligation=cex['obligation'], args=args, observed=bad))
            if bad:
                rep.violations.append(('rgg:generate:%s' % ('refusal' if 'refus' in cex['obligation'] else 'edges'), 'random_graph_gen %s: %s' % (' '.join(args), bad), path))
                print('CONFIRMED random_graph_gen %s: %s' % (' '.join(args), bad))
            else:
                rep.inconclusive.append('%s: counterexample (V=%d E=%d u=%s) did not show in 20 runs of the binary (it may need a particular permutation)' % (name, case['V'], case['E'], case['undirected']))
        else:
            path = save_replay(PID, dict(case, obligation=cex['obligation']))
            rep.violations.append(('rgg:%s' % ('convert' if '--convert' in case['args'][0:1] and '--colors' not in case['args'] else ('colors' if '--colors' in case['args'] else 'request')),
                                   'random_graph_gen %s: %s' % (' '.join(case['args']), case['what']), path))
            print('CONFIRMED random_graph_gen %s: %s' % (' '.join(case['args']), case['what']))
    rep.bounds = {'generate_graph': 'V = 0..3 (4 thorough) concrete; E any usize; -u unknown; every permutation of the candidate edges',
                  'requests_through_binary': 'V = 0..4, E around the feasibility boundary, --complete', 'convert': 'edge lists over <= 3 names (and fixed larger ones)', 'colors': '%d converted graphs x k = 1..3; generated complete graphs on 2, 3, 4 and 11 vertices (thorough: also 5, 10, 12) with k around V, directed and -u' % len(und_graphs)}
    rep.assumptions = ['library models (Vec/slice/iterators/format! with concrete arguments/Option/Result)', 'rand: thread_rng opaque, shuffle = arbitrary permutation',
                       '--convert and --colors are validated on concrete runs of the binary (their csv / hash-map plumbing is not executed symbolically); for --colors the solver decides both sides of the equivalence']
    rep.uncovered = ['V > 3 for the symbolic unit', '--dot output format and file output', 'csv parsing details (quoting, ragged records)']
    sys.exit(rep.finish())


if __name__ == '__main__':
    main()
