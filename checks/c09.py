#!/usr/bin/env python3
"""C09 - free-variable analysis is exact and bound names never leak into results.

On syntax-tree sketches (all labels symbolic over k atoms, so names that occur both bound and free, binders on names
that do not occur in their body, nested binders on one name and names in binder position only are all included):
 * var_is_free (real MIR) == "has an occurrence not enclosed by a binder of the same id" for every queried atom;
 * the constructor (real MIR of new_with_env / extract_vars / the sort closure / the raw2free loop; the tokenizer and the
   parser are replaced by stubs that return the sketch's own token sequence and tree): `vars` lists every id of the text
   once in ascending order, `free_vars` exactly the free ids in ascending order, raw2free maps positions consistently;
 * the evaluated diagram (real evaluator, as C01) depends only on free atoms."""
import random
import sys
from runner import *   # noqa
import props
import bddcore
import evalcore
import fsem
from evalcore import Sketch, setup_eval, to_value, parsed_formula, sym_value, shapes_one, shapes_two
from bddcore import any_symbol, tt_depends, interp_summary
import c01

PID = 'C09'


def token_values(I, w, sk):
    tv = lambda name: I.defs.variant_index('SymbolicBDDToken', name)
    toks = []
    for sym, gvar, leafch in fsem.symbol_occurrences(sk.tree):
        sv = sym_value(w, sym)
        if leafch is None:
            toks.append(mk('SymbolicBDDToken', tv('Var'), [sv]))
        else:
            alts = {}
            for opt, name in (('var', 'Var'), ('true', 'True'), ('false', 'False')):
                g = leafch.g(opt)
                if not g_false(g):
                    alts[tv(name)] = (g, (sv,) if opt == 'var' else ())
            toks.append(Adt('SymbolicBDDToken', alts))
    toks.append(mk('SymbolicBDDToken', tv('Eof'), []))
    return Seq(toks)


def formula_case(sk, w, k, model):
    return evalcore.formula_case(sk, w, k, model)


def unit_free(shape, k, opts):
    I, w, env, mem = setup_eval(opts, k)
    sk = Sketch(shape, k)
    tvv = to_value(I, w, sk.tree)
    pf, mem = parsed_formula(I, w, env, mem, tvv)
    free = fsem.free_atoms(sk.tree, k)
    v, sel = any_symbol(w, 'qv')
    outs = I.run('ParsedFormula', None, 'var_is_free', [mk_sref(pf), mk_sref(tvv), mk_sref(v)], mem)
    rets, pc, _ = outcome_split(outs)
    expected = gor(*[gand(sel[i], free[i]) for i in range(k)])
    assumptions = list(w.constraints) + sk.cons
    res = dict(queries=[], method='var_is_free')
    cex = None

    def ask(name, neg, expect='unsat', assume=assumptions):
        nonlocal cex
        q = decide(name, assume, neg, timeout_s=opts.get('timeout', 200))
        q['expect'] = expect
        m = q.pop('model', None)
        res['queries'].append(q)
        if q['result'] == 'sat' and expect == 'unsat' and cex is None:
            cex = dict(obligation=name, case=dict(formula_case(sk, w, k, m), kind='freevars'))
        elif q['result'] not in ('sat', 'unsat'):
            res['status'] = 'inconclusive'
            res['error'] = 'solver: ' + q['result']
    ask('no panic in var_is_free', pc)
    bad = False
    for r in rets:
        bad = gor(bad, gand(r.guard, gnot(beq(r.value, expected))))
    ask('var_is_free(tree, v) == v has an occurrence not enclosed by a binder of the same id', bad)
    # the evaluated diagram depends only on free atoms
    ref = fsem.Sem(k, (1 << k) + 1)
    exp = ref.sem(sk.tree)
    outs = I.run('ParsedFormula', None, 'eval', [mk_sref(pf)], mem)
    rets2, pc2, _ = outcome_split(outs)
    bad2 = False
    for r in rets2:
        t = w.tt_of(r.value)
        if t is None:
            sup = Sem(w).support(r.value)
            dep = sup
        else:
            dep = [tt_depends(t, k, i) for i in range(k)]
        bad2 = gor(bad2, gand(r.guard, gor(*[gand(dep[i], gnot(free[i])) for i in range(k)])))
    ask('the evaluated diagram depends only on free variables', bad2, assume=assumptions + [gnot(ref.nonconv)])
    res.update(interp_summary(I))
    res['summaries_used'] = I.cfg.get('summaries_used', {})
    res['cex'] = cex
    res['sample'] = dict(unit='var_is_free / support on sketch %r k=%d' % (shape, k), obligations=[q['name'] for q in res['queries']])
    return res


def seq_is_sorted_set(w, items, pred, k):
    """Bool: the sequence of NamedSymbol values `items` is exactly the atoms i with pred[i], strictly ascending"""
    ids = [w.sym_id(x) for x in items]
    conds = []
    for a, b in zip(ids, ids[1:]):
        conds.append(bv_ult(a, b))
    for idv in ids:
        conds.append(gor(*[gand(beq_bv(idv, w.ids[i]), pred[i]) for i in range(k)]))
    for i in range(k):
        conds.append(gor(gnot(pred[i]), *[beq_bv(idv, w.ids[i]) for idv in ids]))
    return gand(*conds)


def unit_constructor(shape, k, opts):
    I, w, env, mem = setup_eval(opts, k)
    sk = Sketch(shape, k)
    tvv = to_value(I, w, sk.tree)
    toks = token_values(I, w, sk)
    I.hooks[('SymbolicBDD', None, 'tokenize')] = lambda I2, fr, a: mk('Result', 0, [toks])
    I.hooks[('SymbolicBDD', None, 'parse_formula')] = lambda I2, fr, a: mk('Result', 0, [tvv])
    outs = I.run('ParsedFormula', None, 'new_with_env', [mk_rc(env), Opaque('dyn BufRead'), mk('Option', 0, [])], mem)
    rets, pc, _ = outcome_split(outs)
    free = fsem.free_atoms(sk.tree, k)
    occ = fsem.all_atoms(sk.tree, k)
    assumptions = list(w.constraints) + sk.cons
    names = I.defs.structs['ParsedFormula']
    res = dict(queries=[], method='new_with_env', outcomes=len(rets))
    cex = None
    bad_vars = bad_free = bad_map = False
    cover = False
    for r in rets:
        v = r.value
        if not (isinstance(v, Adt) and v.ty == 'Result'):
            raise EngineError('new_with_env returned %s' % type(v).__name__)
        if 1 in v.alts and not g_false(v.alts[1][0]):
            bad_vars = gor(bad_vars, gand(r.guard, v.alts[1][0]))      # a stubbed well-formed input must not be rejected
        if 0 not in v.alts:
            continue
        g = gand(r.guard, v.alts[0][0])
        cover = gor(cover, g)
        pfv = v.alts[0][1][0]
        fs = pfv.alts[0][1]
        vars_, free_, r2f = fs[names.index('vars')], fs[names.index('free_vars')], fs[names.index('raw2free')]
        bad_vars = gor(bad_vars, gand(g, gnot(seq_is_sorted_set(w, vars_.items, occ, k))))
        bad_free = gor(bad_free, gand(g, gnot(seq_is_sorted_set(w, free_.items, free, k))))
        # raw2free[j] = Some(position of vars[j] in free_vars) when vars[j] is free, None otherwise
        ok = True
        if len(r2f.items) != len(vars_.items):
            ok = False
        else:
            for j, (vs, m) in enumerate(zip(vars_.items, r2f.items)):
                idv = w.sym_id(vs)
                isfree = gor(*[gand(beq_bv(idv, w.ids[i]), free[i]) for i in range(k)])
                gs = m.alts[1][0] if 1 in m.alts else False
                ok = gand(ok, beq(gs, isfree))
                if 1 in m.alts:
                    pos = m.alts[1][1][0]
                    # free_vars[pos] must be this very symbol
                    hit = False
                    for p, fv in enumerate(free_.items):
                        hit = gor(hit, gand(Veq().eq(pos, p), beq_bv(w.sym_id(fv), idv)))
                    ok = gand(ok, gor(gnot(gs), hit))
        bad_map = gor(bad_map, gand(g, gnot(ok)))

    def ask(name, neg, expect='unsat'):
        nonlocal cex
        q = decide(name, assumptions, neg, timeout_s=opts.get('timeout', 200))
        q['expect'] = expect
        m = q.pop('model', None)
        res['queries'].append(q)
        if q['result'] == 'sat' and expect == 'unsat' and cex is None:
            cex = dict(obligation=name, case=dict(formula_case(sk, w, k, m), kind='freevars'))
        elif q['result'] not in ('sat', 'unsat'):
            res['status'] = 'inconclusive'
            res['error'] = 'solver: ' + q['result']
    ask('constructor does not panic', pc)
    ask('vars = every id of the text once, ascending', bad_vars)
    ask('free_vars = exactly the free ids, ascending', bad_free)
    ask('raw2free maps every variable position to its free-variable position (None when bound)', bad_map)
    res.update(interp_summary(I))
    res['cex'] = cex
    res['sample'] = dict(unit='constructor on sketch %r k=%d' % (shape, k), stubs='tokenize -> the sketch\'s token sequence, parse_formula -> the sketch tree',
                         constructor_outcomes=len(rets), obligations=[q['name'] for q in res['queries']])
    return res


def judge_freevars(case, ans):
    d = parse_driver(ans)
    k = case['k']
    tree = fsem.tree_from_json(case['tree'], k)
    if d['status'] == 'panic':
        return True, 'panic: ' + ans[6:120]
    if d['status'] == 'timeout':
        # the evaluation did not come back (a fixed point that does not converge): nothing about free variables
        return None, 'no answer: ' + ans[:100]
    if d['status'] != 'ok':
        return True, 'well-formed formula rejected: ' + ans[:100]
    free = [bool(x) for x in fsem.free_atoms(tree, k)]
    occ = [bool(x) for x in fsem.all_atoms(tree, k)]
    want_free = ['%s:%d' % (case['names'][i], case['ids'][i]) for i in range(k) if free[i]]
    got_free = [x for x in d.get('free', '').split(',') if x]
    if got_free != want_free:
        return True, 'free_vars %s, expected %s' % (got_free, want_free)
    want_vars = ['%s:%d' % (case['names'][i], case['ids'][i]) for i in range(k) if occ[i]]
    got_vars = [x for x in d.get('vars', '').split(',') if x]
    if got_vars != want_vars:
        return True, 'vars %s, expected every name of the text once in variable order: %s' % (got_vars, want_vars)
    if 'support' in d and d['support'] != '1':
        return True, 'the evaluated diagram mentions a variable that is not free'
    return False, 'agrees'


def replay_freevars(rep, name, cex):
    case = cex['case']
    line = evalcore.formula_line(case, 'evalfree')
    ans = driver_run([line], 'dev', timeout=30)[0]
    v, desc = judge_freevars(case, ans)
    case.update(obligation=cex['obligation'], unit=name, driver_line=line, replay={'dev': {'violates': v, 'what': desc, 'driver_answer': ans[:300]}})
    path = save_replay(PID, case)
    if v:
        rep.violations.append(('freevars:%s' % evalcore.finding_role(case), '`%s`: %s' % (case['text'], desc), path))
        print('CONFIRMED %s: %s' % (case['text'], desc))
    else:
        rep.inconclusive.append('%s: counterexample `%s` did not reproduce (%s)' % (name, case['text'], desc))
        print('NOT-REPRODUCED %s: %s' % (case['text'], desc))


def main():
    quick = TIER != 'thorough'
    rnd = random.Random(SEED)
    k = 3
    shapes = list(shapes_one()) + c01.FIXED + [('q', 2, ('q', 2, 'L')), ('fp', ('fp', ('bin', 'L', 'L'))), ('q', 1, ('bin', ('q', 1, 'L'), 'L')),
                                               ('bin', ('q', 1, ('bin', 'L', 'L')), 'L'), ('fp', ('bin', ('q', 1, 'L'), 'L'))]
    two = shapes_two()
    shapes += rnd.sample(two, 30) if quick else two
    shapes = list(dict.fromkeys(shapes))
    lemma, st = props.units_for('C02', quick)
    jobs = [('<BDD as PartialEq>::eq on canonical diagrams k=3', bddcore.unit_bdd_eq, (3, {}))]
    for sh in shapes:
        fpn = repr(sh).count("'fp'")
        kk = 2 if (fpn >= 2 or (fpn >= 1 and ("'cc'" in repr(sh) or "'cv'" in repr(sh)))) else k
        jobs.append(('free %r k=%d' % (sh, kk), unit_free, (sh, kk, {})))
        if evalcore.shape_size(sh) <= 3 and len(fsem.symbol_occurrences(Sketch(sh, kk).tree)) <= 5:
            jobs.append(('constructor %r k=%d' % (sh, kk), unit_constructor, (sh, kk, {})))
    rep = run_property(PID, lemma, ['and', 'or', 'not', 'exists', 'all'], [],
                       bounds={'atoms_k': k, 'sketch_shapes': len(shapes), 'constructor': 'sketches with <= 5 symbol occurrences'},
                       assumptions=props.COMMON_ASSUME + ['constructor units: tokenize and parse_formula are stubbed to return the sketch (their own behaviour is C08/C11)'],
                       uncovered=props.COMMON_UNCOVERED + ['Reference nodes (definitions API)', 'truth-table column headers as printed text (C10)'],
                       extra_jobs=jobs)
    sys.exit(rep.finish())


if __name__ == '__main__':
    main()
