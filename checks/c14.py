#!/usr/bin/env python3
"""C14 - Graphviz exports denote the same diagram / syntax tree they were made from.

The DOT *text* is produced by the external `dot` crate from what the crate's own `Labeller` / `GraphWalk`
implementations return.  `dot::render` is replaced by its contract (one node statement per element of nodes() with
node_id / node_label, one edge statement per element of edges() with the ids of source / target and edge_label); the
implementations themselves are executed from MIR:

 * src/bdd_io.rs (BDDGraph): on the canonical diagram of an unknown function of k variables with an unknown filter -
   every declared node has its own id (ids of inner nodes are rendered allocation addresses, modelled as identified
   with the node's structure: the sharing obligation of C13), every edge runs between declared nodes, and the
   description read back from the root id along T / F edges evaluates to the function; under filter True / False
   only the opposite leaf and the edges into it are missing;
 * src/parser_io.rs (SymbolicParseTree): on formula sketches - identical sub-terms are one node, exactly one root,
   and labels / edge labels / out-degrees read back as a term give the parsed tree;
 * `main` hands the evaluated diagram with the filter (-d) and the parsed tree (-p) to the renderer and writes to the
   named files (whole-main units, maincore.py).

Counterexamples are replayed through the real binary: `rsbdd -d` / `-p` writes the DOT text and an independent reader
(dotcore.read_dot) parses and evaluates it."""
import sys
from runner import *   # noqa
import props
import bddcore
import dotcore
import maincore

PID = 'C14'

SHAPES = [('L',), ('not', 'L'), ('bin', 'L', 'L'), ('ite', 'L', 'L', 'L'), ('q', 1, 'L'), ('q', 2, ('bin', 'L', 'L')), ('cc', ('L', 'L')), ('cc', ()), ('cv', ('L',), ('L', 'L')),
          ('cv', ('L', 'L'), ('L',)), ('cv', (), ('L',)), ('fp', ('bin', 'L', 'L')), ('bin', ('bin', 'L', 'L'), ('bin', 'L', 'L')), ('not', ('not', 'L')), ('bin', ('not', 'L'), 'L'),
          ('q', 1, ('q', 1, 'L')), ('fp', ('fp', 'L'))]
SHAPES_MORE = [('ite', ('bin', 'L', 'L'), 'L', ('bin', 'L', 'L')), ('cc', ('L', 'L', 'L')), ('cc', (('bin', 'L', 'L'), 'L')), ('cv', ('L', 'L'), ('L', 'L')), ('bin', ('cc', ('L', 'L')), ('cc', ('L', 'L'))),
               ('bin', ('q', 1, 'L'), ('q', 1, 'L')), ('fp', ('q', 1, ('bin', 'L', 'L'))), ('bin', ('bin', 'L', ('bin', 'L', 'L')), 'L')]


def main():
    quick = TIER != 'thorough'
    lemma, st = props.units_for('C02', quick)
    jobs = []
    for k in (1, 2):
        # k = 3 multiplies the list shapes of nodes() x edges() beyond an hour of path construction: outside the claim
        jobs.append(('BDDGraph description k=%d' % k, dotcore.unit_bdd_graph, (k, dict(timeout=250 if quick else 3000))))
    for sh in SHAPES + ([] if quick else SHAPES_MORE):
        sh2 = 'L' if sh == ('L',) else sh
        jobs.append(('SymbolicParseTree description %r k=2' % (sh2,), dotcore.unit_parse_tree, (sh2, 2, {})))
        if not quick:
            jobs.append(('SymbolicParseTree description %r k=3' % (sh2,), dotcore.unit_parse_tree, (sh2, 3, dict(timeout=1500))))
    jobs += maincore.jobs_dot(quick)
    # ids of inner nodes are allocation addresses: identifying them with node structure needs every exported diagram to
    # consist of the table's own nodes - the sharing units of C13, discharged in this run as well
    import c13
    jobs += c13.sharing_jobs(quick)
    jobs.append(('<BDD as PartialEq>::eq on canonical diagrams k=3', bddcore.unit_bdd_eq, (3, {})))
    jobs.append(('selftest:T and F edge labels swapped', dotcore.unit_bdd_graph, (1, dict(mutate=('edge_label', 'const "T"', 'const "F"')))))
    jobs.append(('selftest:the false leaf gets the id of the true leaf', dotcore.unit_bdd_graph, (1, dict(mutate=('node_id', 'const "n_false"', 'const "n_true"')))))
    jobs.append(('selftest:left and right edge labels of a binary operator coincide', dotcore.unit_parse_tree, (('bin', 'L', 'L'), 2, dict(mutate=('edges', 'const "R"', 'const "L"')))))
    rep = run_property(PID, lemma, ['and', 'or', 'not'], [],
                       bounds={'diagram': 'every function of k = 1, 2 variables as its canonical diagram; filter unknown (True / False / Any)',
                               'parse_trees': '%d sketch shapes (%d thorough) over 2 (3) variables: every operator / quantifier / counting kind / constant / variable choice symbolic' % (len(SHAPES), len(SHAPES) + len(SHAPES_MORE)),
                               'main': '-d / -p with -f unknown, -m, -c unknown'},
                       assumptions=props.COMMON_ASSUME + ['dot::render replaced by its contract: node statements from nodes() / node_id / node_label, edge statements from edges() / source / target / edge_label, nothing else',
                                                          'dot::Id::new accepts exactly [A-Za-z_][A-Za-z0-9_]*; LabelText::label wraps its argument',
                                                          'a {:p}-rendered Rc address is "0x" + hex digits and equal for two nodes exactly when they are the same allocation; allocations are identified with node structure (sharing: C13)',
                                                          'derived Debug of a field-less enum prints the variant name; Display of an integer is injective'],
                       uncovered=['the DOT text itself (quoting / escaping by the `dot` crate) - checked on the replayed cases only', 'diagrams over more than 2 variables (the sharing units that justify the address model run at k = 2..3); parse trees beyond the listed shapes',
                                  'Subtree / Reference nodes of the syntax tree (not produced by the parser)'],
                       extra_jobs=jobs)
    sys.exit(rep.finish())


if __name__ == '__main__':
    main()
