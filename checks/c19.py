#!/usr/bin/env python3
"""C19 - BDDSet behaves as a mathematical set of b-bit integers under every history.

One inductive step per operation from an arbitrary state: two sets A, B over `bits` = 2..3 sharing one environment hold
the canonical diagrams of unknown truth tables (every reachable and unreachable pair of states), B either a distinct
object or A itself; the operation is executed on the real MIR of src/set.rs (BDDEnv callees by contract, discharged
by lemma units instantiated for usize symbols); membership is defined on the diagram through the real `categorize`."""
import sys
import z3
from runner import *   # noqa
import props
import bddcore
import evalcore
from bddcore import install_summaries, world_for, table_env, interp_summary, BINOPS
from mirsym.interp import CellState

PID = 'C19'
CONTRACTS = ('and', 'or', 'not', 'implies', 'ite', 'eq', 'xor', 'nor', 'nand', 'mk_const', 'var')


def member_index_bits(e, k):
    """list of k Bool: value of variable i for element e (variable i true iff bit i of e is 0)"""
    out = []
    for i in range(k):
        if isinstance(e, int):
            out.append(((e >> i) & 1) == 0)
        else:
            out.append(z3.Extract(i, i, e) == z3.BitVecVal(0, 1))
    return out


def member(e, tt, k):
    """Bool: element e is in the set whose diagram has truth table tt"""
    vals = member_index_bits(e, k)
    res = False
    for j, sg in enumerate(all_assignments(k)):
        res = gor(res, gand(tt[j], *[(vals[i] if sg[i] else gnot(vals[i])) for i in range(k)]))
    return res


def cube_tt(e, k):
    vals = member_index_bits(e, k)
    return [gand(*[(vals[i] if sg[i] else gnot(vals[i])) for i in range(k)]) for sg in all_assignments(k)]


def make_set(I, env, mem, dia, bits):
    names = I.defs.structs['BDDSet']
    c = I.new_cell()
    mem = dict(mem)
    mem[c] = CellState(dia, 0)
    vals = {'env': mk_rc(env), 'bdd': RefCellV(c), 'bits': bits}
    return mk_struct('BDDSet', [vals[n] for n in names]), mem, c


OPS = ['insert', 'union', 'intersect', 'complement', 'empty', 'universe', 'contains']


def unit_setop(op, bits, alias, opts):
    I = load('lib')
    if opts.get('mutate'):
        bddcore.apply_mir_mutation(I, opts['mutate'])
    k = bits
    w = world_for(k, list(range(k)), 'usize')
    env, mem = table_env(I)
    install_summaries(I, w, CONTRACTS)
    evalcore.install_eq_summary(I, w)
    TA, TB = w.tt('A'), w.tt('B')
    A, mem, ca = make_set(I, env, mem, w.canon(TA), bits)
    if alias:
        B, cb, TB = A, ca, TA
    else:
        B, mem, cb = make_set(I, env, mem, w.canon(TB), bits)
    e = z3.BitVec('e', 64)
    args = {'insert': [mk_sref(A), e], 'contains': [mk_sref(A), e], 'empty': [mk_sref(A)], 'universe': [mk_sref(A)]}.get(op, [mk_sref(A), mk_sref(B)])
    outs = I.run('BDDSet', None, op, args, mem)
    rets, pc, pm = outcome_split(outs)
    expA = {'insert': [gor(a, c) for a, c in zip(TA, cube_tt(e, k))], 'union': [gor(a, b) for a, b in zip(TA, TB)],
            'intersect': [gand(a, b) for a, b in zip(TA, TB)], 'complement': [gand(a, gnot(b)) for a, b in zip(TA, TB)],
            'empty': [False] * (1 << k), 'universe': [True] * (1 << k), 'contains': list(TA)}[op]
    res = dict(queries=[], method=None)
    cex = None

    def case(model):
        model = model or {}
        ta = [bool(model.get('A_%d' % j)) for j in range(1 << k)]
        tb = ta if alias else [bool(model.get('B_%d' % j)) for j in range(1 << k)]
        ev = model.get('e', 0) & ((1 << k) - 1)
        return dict(kind='set', op=op, bits=bits, alias=alias, A=ta, B=tb, e=ev)

    def ask(name, neg, expect='unsat'):
        nonlocal cex
        q = decide(name, w.constraints, neg, timeout_s=opts.get('timeout', 200))
        q['expect'] = expect
        m = q.pop('model', None)
        res['queries'].append(q)
        if q['result'] == 'sat' and expect == 'unsat' and cex is None:
            cex = dict(obligation=name, case=case(m))
        elif q['result'] not in ('sat', 'unsat'):
            res['status'] = 'inconclusive'
            res['error'] = 'solver: ' + q['result']
    ask('no panic (including RefCell double borrow)', pc)
    badA = badB = badR = False
    for r in rets:
        a_after = r.mem[ca].content
        ta = w.tt_of(a_after)
        eqA = gand(*[beq(x, y) for x, y in zip(ta, expA)]) if ta is not None else Veq().eq(a_after, w.canon(expA))
        badA = gor(badA, gand(r.guard, gnot(eqA)))
        if not alias:
            b_after = r.mem[cb].content
            tb = w.tt_of(b_after)
            eqB = gand(*[beq(x, y) for x, y in zip(tb, TB)]) if tb is not None else Veq().eq(b_after, w.canon(TB))
            badB = gor(badB, gand(r.guard, gnot(eqB)))
        if op == 'contains':
            badR = gor(badR, gand(r.guard, gnot(beq(r.value, member(e, TA, k)))))
    ask('receiver afterwards == reference set operation (membership of every element)', badA)
    if not alias:
        ask('the other set is unchanged', badB)
    if op == 'contains':
        ask('contains returns membership', badR)
    res.update(interp_summary(I))
    res['summaries_used'] = I.cfg.get('summaries_used', {})
    res['cex'] = cex
    res['sample'] = dict(unit='BDDSet::%s bits=%d %s' % (op, bits, 'B is A' if alias else 'A, B distinct'), state='A, B arbitrary (unknown truth tables)', element='unconstrained usize',
                         obligations=[q['name'] for q in res['queries']])
    return res


def set_script(case):
    k = case['bits']
    steps = []

    def elems(tt):
        out = []
        for x in range(1 << k):
            j = 0
            for i in range(k):
                j = (j << 1) | (1 if ((x >> i) & 1) == 0 else 0)
            if tt[j]:
                out.append(x)
        return out
    # reach the state: build A and B by insertion (insert is checked separately)
    for x in elems(case['A']):
        steps.append('iA:%d' % x)
    if not case['alias']:
        for x in elems(case['B']):
            steps.append('iB:%d' % x)
    other = 'A' if case['alias'] else 'B'
    op = case['op']
    steps.append({'insert': 'iA:%d' % case['e'], 'union': 'uA' + other, 'intersect': 'nA' + other, 'complement': 'cA' + other, 'empty': 'eA', 'universe': 'UA',
                  'contains': 'qA:%d' % case['e']}[op])
    return steps, elems


def judge_set(case, ans):
    k = case['bits']
    steps, elems = set_script(case)
    if ans.startswith('panic'):
        return True, 'panic: ' + ans[6:100]
    if not ans.startswith('ok'):
        return None, ans[:100]
    last = ans.strip().split('[')[-1].rstrip(']')
    fields = dict(x.split('=') for x in last.split()[1:] if '=' in x)
    A = set(elems(case['A']))
    B = A if case['alias'] else set(elems(case['B']))
    op = case['op']
    expA = {'insert': A | {case['e']}, 'union': A | B, 'intersect': A & B, 'complement': A - B, 'empty': set(), 'universe': set(range(1 << k)), 'contains': A}[op]
    gotA = {x for x in range(1 << k) if fields['A'][x] == '1'}
    if gotA != expA:
        return True, '%s: receiver becomes %s, expected %s' % (op, sorted(gotA), sorted(expA))
    if not case['alias']:
        gotB = {x for x in range(1 << k) if fields['B'][x] == '1'}
        if gotB != B:
            return True, '%s: other set changed to %s' % (op, sorted(gotB))
    if op == 'contains' and (fields.get('q') == '1') != (case['e'] in A):
        return True, 'contains(%d) answered %s' % (case['e'], fields.get('q'))
    return False, 'agrees'


def main():
    quick = TIER != 'thorough'
    lemma, st = props.units_for('C02', quick)
    # the contracts used here, instantiated for usize symbols with concrete ids 0..bits-1
    lem = []
    for name, spec, k, opts in lemma:
        if spec in ('and', 'or', 'not', 'implies', 'const', 'var', 'eq', 'xor', 'ite', 'nor', 'nand') and k <= 4:
            lem.append((name + ' [S = usize]', spec, min(k, 3), dict(opts, kind='usize', ids=list(range(min(k, 3))))))
    jobs = [('<BDD as PartialEq>::eq on canonical diagrams k=3', bddcore.unit_bdd_eq, (3, {}))]
    for bits in ((2, 3) if quick else (2, 3, 4)):
        for op in OPS:
            jobs.append(('BDDSet::%s bits=%d' % (op, bits), unit_setop, (op, bits, False, dict(timeout=200 if quick else 2500))))
            if op in ('union', 'intersect', 'complement'):
                jobs.append(('BDDSet::%s bits=%d aliased (same set twice)' % (op, bits), unit_setop, (op, bits, True, dict(timeout=200 if quick else 2500))))
    jobs.append(('selftest:union computes the intersection', unit_setop, ('union', 2, False, dict(mutate=('union', 'BDDEnv::<usize>::or(', 'BDDEnv::<usize>::and(')))))
    rep = run_property(PID, lem, ['and', 'or', 'not'], [], bounds={'bits': '2..3 (4 thorough)', 'states': 'every pair of sets (unknown truth tables), distinct or aliased', 'element': 'any usize'},
                       assumptions=props.COMMON_ASSUME + ['membership of x is defined on the diagram: variable i true iff bit i of x is 0 (the crate\'s categorize, executed from MIR)'],
                       uncovered=['bits > 4', 'sets over different environments', 'histories are covered by the one-step argument from arbitrary states (insert is checked for every state)'],
                       extra_jobs=jobs)
    sys.exit(rep.finish())


if __name__ == '__main__':
    main()
