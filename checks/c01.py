#!/usr/bin/env python3
"""C01 - evaluating a formula yields exactly its documented truth function.

Syntax-tree sketches (concrete shape; operator, quantifier kind, counting kind, 64-bit constant, fixed-point start and
every variable id symbolic, drawn from k atoms so that bound/free reuse and shadowing are included) are evaluated by
the real MIR of ParsedFormula::eval / eval_recursive / replace_var / BDDEnv::fp and compared with the reference
semantics FSEM.  Calls into BDDEnv operations are replaced by their contracts, which the lemma units of this same run
discharge on the real MIR of src/bdd.rs."""
import random
import sys
from runner import *   # noqa
import props
import bddcore
import evalcore
from evalcore import unit_sketch, shapes_one, shapes_two, grow, replay_formula

PID = 'C01'

FIXED = [
    ('fp', ('bin', 'L', 'L')),
    ('fp', ('q', 1, ('bin', 'L', 'L'))),
    ('q', 1, ('fp', 'L')),
    ('fp', ('q', 2, 'L')),
    ('fp', ('bin', 'L', ('q', 1, 'L'))),
    ('fp', ('fp', 'L')),
    ('fp', ('not', ('not', 'L'))),
    ('fp', ('ite', 'L', 'L', 'L')),
    ('fp', ('cc', ('L', 'L'))),
    ('fp', ('cv', ('L',), ('L', 'L'))),
    ('q', 2, ('q', 1, 'L')),
    ('bin', ('q', 1, 'L'), 'L'),
    ('not', ('cc', ('L', 'L', 'L'))),
    ('cc', (('bin', 'L', 'L'), 'L')),
    ('cv', (('not', 'L'),), ('L', 'L')),
    ('ite', ('q', 1, 'L'), 'L', ('bin', 'L', 'L')),
    ('bin', ('bin', 'L', 'L'), ('bin', 'L', 'L')),
]


def main(pid=PID, extra_filter=None):
    quick = TIER != 'thorough'
    rnd = random.Random(SEED)
    k = 3
    shapes = list(shapes_one()) + FIXED
    two = shapes_two()
    if quick:
        shapes += rnd.sample(two, 24)
    else:
        shapes += two
        three = []
        for a in rnd.sample(two, 60):
            for b in (('not', 'L'), ('bin', 'L', 'L'), ('q', 1, 'L'), ('fp', 'L'), ('cc', ('L', 'L'))):
                g = grow(a, b)
                if g:
                    three.append(rnd.choice(g))
        shapes += three
    shapes = list(dict.fromkeys(shapes))
    if extra_filter:
        shapes = [s for s in shapes if extra_filter(s)]
    lemma, st = props.units_for('C02', quick)
    jobs = [('<BDD as PartialEq>::eq on canonical diagrams k=3', bddcore.unit_bdd_eq, (3, {}))]
    for sh in shapes:
        fpn = repr(sh).count("'fp'")
        heavy = fpn >= 1 and ("'cc'" in repr(sh) or "'cv'" in repr(sh) or evalcore.shape_size(sh) >= 3)
        kk = 2 if (fpn >= 2 or heavy) else k
        jobs.append(('eval %r k=%d' % (sh, kk), unit_sketch, (sh, kk, dict(timeout=250 if quick else 1500))))
        if "'cc'" in repr(sh):
            jobs.append(('eval %r k=%d release profile (overflow wraps)' % (sh, kk), unit_sketch,
                         (sh, kk, dict(timeout=250 if quick else 1500, config=dict(overflow_checks=False)))))
    # self-test: Implies evaluated with swapped operands must be caught
    jobs.append(('selftest:implies operands swapped', unit_sketch, (('bin', 'L', 'L'), 2, dict(
        mutate=('eval_recursive', 'BDDEnv::<symbols::NamedSymbol>::implies(copy _', 'BDDEnv::<symbols::NamedSymbol>::nand(copy _')))))
    rep = run_property(pid, lemma, ['and', 'or', 'not', 'eq', 'xor', 'ite', 'exists', 'all', 'aln', 'amn', 'exn', 'count_leq', 'count_gt'], [],
                       bounds={'atoms_k': k, 'sketch_shapes': len(shapes), 'internal_nodes': '<= 2 (quick: all 1-node shapes, fixed nested shapes, %d seeded 2-node shapes; thorough: all 2-node shapes + seeded 3-node shapes)' % 24,
                               'lists': 'quantifier lists <= 2, counting lists <= 3', 'fixed_point_unrolling': '2^k+1 reference iterations, loop bound 2^k+3 in the real fp loop; convergence within the bound is assumed (property: convergent lfp/gfp) and the real loop must then terminate within it',
                               'labels': 'all 8 binary operators, both quantifier kinds, all 5 counting operators, the constant n as an unconstrained 64-bit usize, both fixed-point starts, every variable id any of the k atoms'},
                       assumptions=props.COMMON_ASSUME + ['FSEM (checks/fsem.py) is the documented meaning of the language'],
                       uncovered=props.COMMON_UNCOVERED + ['operator spellings / associativity / nesting by text (C08)', 'Reference and Subtree nodes of the definitions API', 'sketch shapes beyond the bound'],
                       extra_jobs=jobs)
    return rep


def finish(rep):
    sys.exit(rep.finish())


if __name__ == '__main__':
    finish(main())
