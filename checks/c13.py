#!/usr/bin/env python3
"""C13 - environment history never changes results; handed-out diagrams stay valid; every node is the table's node.

 (a) independence of history: (i) every C02..C07 obligation is proved with each table lookup free to hit or miss;
     (ii) two-operation histories: op1 then op2 on the same symbolic operands in one environment (state threaded through
     the real code, including any state a changed tree adds to the environment): the second result is the canonical
     diagram of its specification;
 (b) representation invariant of the unique table: established by new(), preserved by every insert of every operation;
 (c) sharing: with ownership of every Rc allocation tracked (fresh allocation = not owned until this very allocation is
     inserted), every Rc returned by a public operation, and all its descendants, is table-owned."""
import itertools
import random
import sys
from runner import *   # noqa
import bddcore

PID = 'C13'
PAIR_OPS = ['and', 'or', 'not', 'implies', 'eq', 'xor', 'nor', 'nand', 'ite', 'exists/1', 'all/1', 'aln/2', 'amn/2', 'exn/2', 'count_leq/1,1',
            'count_gt/1,1', 'count_eq/1,1', 'model', 'retain', 'var']


def owned_all(v, memo):
    """Bool: the Rc value v and every descendant Rc is table-owned"""
    if not isinstance(v, RcV):
        return True
    r = memo.get(id(v))
    if r is not None:
        return r[0]
    res = v.owned
    if isinstance(res, Prov):
        ins = memo['__inserted__']
        res = gor(*[gand(g, True if tok == 'T' else ins.get(tok, False)) for tok, g in res.alts.items()])
    x = v.inner
    if isinstance(x, Adt) and 2 in x.alts:
        g, (t, s, f) = x.alts[2]
        res = gand(res, gor(gnot(g), gand(owned_all(t, memo), owned_all(f, memo))))
    memo[id(v)] = (res, v)
    return res


def unit_sharing(spec_name, k, opts):
    spec = SPECS[spec_name]
    I = load('lib', dict(rc_new_owned=False, loop_bound=opts.get('loop_bound', 8)))
    I.prov = {'allocs': {}, 'inserted': {}}
    w = world_for(k)
    env, mem = table_env(I)
    b = spec(I, w, k, opts)
    outs = I.run('BDDEnv', None, b['method'], [mk_sref(env)] + b['args'], mem)
    rets, pc, pm = outcome_split(outs)
    res = dict(queries=[], method=b['method'])
    assumptions = list(w.constraints) + list(b.get('assume', []))
    cex = None
    if len(rets) != 1:
        raise EngineError('sharing unit %s: %d return outcomes' % (spec_name, len(rets)))
    rv = rets[0].value
    if isinstance(rv, RcV):
        q = decide('every node of the result is the table\'s node (owned), given owned operands', assumptions,
                   gand(rets[0].guard, gnot(b.get('allowed_panic', False)), gnot(owned_all(rv, {'__inserted__': I.prov['inserted']}))), timeout_s=opts.get('timeout', 250))
        q['expect'] = 'unsat'
        model = q.pop('model', None)
        res['queries'].append(q)
        if q['result'] == 'sat':
            cex = dict(obligation=q['name'], case=b['case'](model), spec=spec_name, k=k, sharing=True)
        elif q['result'] != 'unsat':
            res['status'] = 'inconclusive'
            res['error'] = 'solver: ' + q['result']
    # table invariant for every insert
    ve = Veq()
    bad = gor(*[gnot(ve.eq(kx, vx)) for kx, vx in I.insert_obligations]) if I.insert_obligations else False
    q = decide('every insert keeps the table invariant (key == *value)', assumptions, bad, timeout_s=opts.get('timeout', 250))
    q['expect'] = 'unsat'
    q.pop('model', None)
    res['queries'].append(q)
    if q['result'] == 'sat':
        res['status'] = 'inconclusive'
        res['error'] = 'table invariant broken by an insert in ' + spec_name
    res.update(interp_summary(I))
    res['allocations_tracked'] = len(I.prov['allocs'])
    res['cex'] = cex
    res['sample'] = dict(unit='sharing %s k=%d' % (spec_name, k), function='BDDEnv::' + b['method'],
                         obligation='result and descendants table-owned; inserts preserve key == *value',
                         allocations_tracked=len(I.prov['allocs']), inserts=len(I.insert_obligations))
    return res


SHARE_OPS = ['and', 'or', 'not', 'implies', 'eq', 'xor', 'nor', 'nand', 'ite', 'var', 'const', 'exists_impl', 'exists/2', 'all/1', 'aln/2', 'amn/1', 'exn/2',
             'count_leq/1,1', 'count_eq/1,1', 'model', 'retain', 'clean']


def sharing_jobs(quick):
    jobs = []
    for op in SHARE_OPS:
        kk = 2 if (quick or op in ('eq', 'xor', 'ite', 'aln/2', 'exn/2', 'count_eq/1,1', 'count_leq/1,1', 'all/1', 'exists/2')) else 3
        if op.startswith(('aln', 'amn', 'exn', 'count')):
            kk = 1 if quick else 2
        if op in ('retain', 'model', 'not'):
            kk = 3          # a rebuilt node *above* a changed sub-diagram needs three levels (seed C14-4)
        jobs.append(('sharing %s k=%d' % (op, kk), unit_sharing, (op, kk, {})))
    return jobs


def replay_sharing(rep, pid, name, cex):
    # pointer identity is not observable through the driver's serialisation: report through duplicates()/ptr check
    case = cex['case']
    path = save_replay(pid, dict(case, obligation=cex['obligation'], unit=name))
    line = op_line(case).replace('op ', 'share ', 1)
    ans = driver_run([line])[0]
    if ans.startswith('ok') and 'shared=0' in ans:
        rep.violations.append(('sharing:%s' % case['op'], 'result of `%s` contains a node that is not the table\'s node: %s' % (op_line(case), ans), path))
        print('CONFIRMED ' + line + ': ' + ans)
    else:
        rep.inconclusive.append('%s: sharing counterexample did not reproduce (%s)' % (name, ans[:100]))


def unit_eval_twice(shape, k, opts):
    """ParsedFormula::eval executed twice in one environment: the second answer == the documented meaning"""
    import evalcore, fsem
    I, w, env, mem = evalcore.setup_eval(opts, k)
    sk = evalcore.Sketch(shape, k)
    tv = evalcore.to_value(I, w, sk.tree)
    pf, mem = evalcore.parsed_formula(I, w, env, mem, tv)
    ref = fsem.Sem(k, (1 << k) + 1)
    exp = ref.sem(sk.tree)
    outs1 = I.run('ParsedFormula', None, 'eval', [mk_sref(pf)], mem)
    rets1, pc1, _ = outcome_split(outs1)
    assumptions = list(w.constraints) + sk.cons + [gnot(ref.nonconv)]
    res = dict(queries=[], method=None)
    bad = pcs = False
    for r1 in rets1:
        outs2 = I.run('ParsedFormula', None, 'eval', [mk_sref(pf)], r1.mem)
        rets2, pc2, _ = outcome_split(outs2)
        pcs = gor(pcs, gand(r1.guard, pc2))
        for r2 in rets2:
            bad = gor(bad, gand(r1.guard, r2.guard, gnot(evalcore.result_tt_eq(w, r2.value, exp))))
    cex = None
    for name, neg in (('second evaluation does not panic / diverge', pcs), ('second evaluation == documented meaning', bad)):
        q = decide(name, assumptions, neg, timeout_s=opts.get('timeout', 250))
        q['expect'] = 'unsat'
        m = q.pop('model', None)
        res['queries'].append(q)
        if q['result'] == 'sat' and cex is None:
            cex = dict(obligation=name, case=evalcore.formula_case(sk, w, k, m))
        elif q['result'] not in ('sat', 'unsat'):
            res['status'] = 'inconclusive'
    res.update(interp_summary(I))
    res['cex'] = cex
    res['sample'] = dict(unit='eval twice %r k=%d' % (shape, k), obligation='second evaluation in the same environment == documented meaning')
    return res


def main():
    quick = TIER != 'thorough'
    rep = Report(PID)
    k = 2
    try:
        build_driver('dev')
        build_driver('release')
    except Exception as e:   # noqa
        rep.inconclusive.append('replay driver does not build: %s' % str(e)[-300:])
    jobs = []
    # (b)+(c): sharing / invariant units, full recursion, no summaries
    share_ops = SHARE_OPS
    jobs += sharing_jobs(quick)
    # (a)(ii): two-operation histories
    rnd = random.Random(SEED)
    pairs = list(itertools.product(PAIR_OPS, PAIR_OPS)) + [('clean', b) for b in PAIR_OPS] + [('clean', 'clean')]
    if quick:
        # every operation appears as first and as second; plus seeded extra pairs
        base = [(a, PAIR_OPS[(i + 1 + SEED) % len(PAIR_OPS)]) for i, a in enumerate(PAIR_OPS)] + [(a, a) for a in PAIR_OPS]
        derived = ['eq', 'xor', 'nor', 'nand', 'ite', 'implies']
        base += [(a, b) for a in derived for b in derived if a != b]
        base += [('retain', 'retain'), ('model', 'retain'), ('exists/1', 'all/1'), ('all/1', 'exists/1')]
        base += [('clean', 'var'), ('clean', 'not'), ('clean', 'and'), ('clean', 'clean')]
        extra = rnd.sample(pairs, 24)
        pairs = list(dict.fromkeys(base + extra))
    for a, b in pairs:
        kk = 1 if (a.startswith(('aln', 'amn', 'exn', 'count')) or b.startswith(('aln', 'amn', 'exn', 'count'))) else 2
        jobs.append(('history %s ; %s k=%d' % (a, b, kk), unit_pair, (a, b, kk, {})))
    jobs.append(('NamedSymbol: Hash consistent with Eq (table lookups find equal keys)', bddcore.unit_symbol_hash, ({},)))
    # a formula evaluated twice in its environment (fixed points consult the environment between iterations)
    import evalcore
    for sh in [('fp', ('bin', 'L', 'L')), ('fp', ('q', 1, ('bin', 'L', 'L'))), ('fp', ('bin', 'L', ('q', 1, 'L'))), ('bin', ('fp', 'L'), ('fp', 'L'))]:
        jobs.append(('eval twice %r k=2' % (sh,), unit_eval_twice, (sh, 2, {})))
    results = run_units(jobs)
    rep.absorb(results)
    for name, r in sorted(results.items()):
        cex = r.get('cex')
        if not cex:
            continue
        case = cex['case']
        if cex.get('sharing'):
            replay_sharing(rep, PID, name, cex)
            continue
        if case.get('kind') == 'pair':
            replay_pair(rep, PID, name, cex)
            continue
        if case.get('kind') == 'formula':
            import evalcore
            evalcore.replay_formula(rep, PID, name, cex, keyprefix='history-eval')
            continue
        if case.get('kind') == 'symhash':
            rr = run_property_replay_symhash(rep, PID, name, cex)
            continue
    rep.bounds = {'variables_k': 2, 'history_length': 2, 'pairs': len(pairs), 'sharing_units': len(share_ops)}
    rep.assumptions = props_assume()
    rep.uncovered = ['histories longer than two operations (longer ones are covered only through the free hit/miss table model of C02..C07)',
                     'literal pointer identity / addresses (value semantics; ownership is tracked per allocation instead)', 'size() and duplicates() counts',
                     'formula evaluations sharing one environment (covered for the operations they call, not as a sequence)']
    rep.extra['invariant_established_by_new'] = 'checked on every run by executing BDDEnv::new() symbolically (leaves present, key == *value)'
    sys.exit(rep.finish())


def run_property_replay_symhash(rep, pid, name, cex):
    case = cex['case']
    n1 = ''.join(ch for ch in case['names'][0] if ch.isalnum()) or 'a'
    n2 = ''.join(ch for ch in case['names'][1] if ch.isalnum()) or 'b'
    if n1 == n2:
        n2 += 'x'
    line = 'symhash %d %s %s' % (case['id'] % (1 << 62), n1, n2)
    ans = driver_run([line], 'dev')[0]
    path = save_replay(pid, dict(case, driver_line=line, driver_answer=ans, obligation=cex['obligation']))
    if ans.startswith('ok') and 'eq=1' in ans and 'hasheq=0' in ans:
        rep.violations.append(('symbol:hash-vs-eq', 'symbols with id %d named %s / %s compare equal but hash differently: table lookups miss, equal nodes are stored twice (sharing broken)' % (case['id'] % (1 << 62), n1, n2), path))
        print('CONFIRMED ' + line + ': ' + ans)
    else:
        rep.inconclusive.append('%s: hash/eq counterexample did not reproduce (%s)' % (name, ans[:80]))


def props_assume():
    import props
    return props.COMMON_ASSUME


if __name__ == '__main__':
    main()
