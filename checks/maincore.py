"""Units over the *whole* `main` of src/bin/rsbdd.rs: the real MIR of main runs under one concrete command line (the
`Args` value clap would produce), with the formula a symbolic sketch (every operator / variable choice / leaf kind
unknown) and, where the configuration asks for it, an unknown filter.  What is replaced, and by what:

  * `Args::parse_from` (clap) -> the Args value of the configuration; `wild::args_os` / `argfile::expand_args_from` opaque;
  * `File::open` / `io::stdin` / `BufReader::new` / `as_bytes` -> tagged reader values (which channel, which path);
  * `SymbolicBDD::tokenize` -> its contract (verified by the C08 / C11 units): on the formula channel the sketch's tokens
    (ids: listed names keep the id of the ordering vector, new names get fresh ids above every listed id, in order of
    first appearance); on an ordering file the reference tokenization of the file's *concrete* text.  The hook also
    checks that the reader it is handed is the channel the command line names;
  * `SymbolicBDD::parse_formula` -> the sketch's tree (the parser is C08's subject);
  * `BDDEnv::new` -> the environment of the real new() with the abstract unique table (as everywhere else);
  * `print_sized_line`, `print_header`, `println!` -> recorders of (labels, leaf) / header / line events;
  * `Instant`, `eprintln!`, `print_performance_results` -> no-ops.

Everything else of main - option plumbing, the -b loop, -m, -r, the header and width vectors, the calls of the printing
recursions, eval, the constructor - is the real code.  Obligations are over the recorded stdout events."""
import z3
from common import *   # noqa
from mirsym.harness import *   # noqa
from mirsym.interp import Outcome, Outs, CellState
from mirsym import models as MM
import bddcore
from bddcore import world_for, table_env, interp_summary, apply_mir_mutation, concrete_ids, install_summaries
import evalcore
import fsem
import printcore
import c09
from printcore import STDOUT, entry_matches

CHANNEL = 'main:channel-problem'
FORMULA_TEXT = '\x00the formula\x00'        # what reading the formula channel yields: a sentinel the tokenizer stub recognises


def option(v=None):
    return mk('Option', 0, []) if v is None else mk('Option', 1, [v])


def args_value(I, cfg, flt, retain=None):
    names = I.defs.structs.get('Args')
    types = I.defs.field_types.get('Args', {})
    if not names:
        raise Unsupported('struct Args not found in src/bin/rsbdd.rs')
    any_ = mk('TruthTableEntry', 2, [])
    known = dict(
        input=option(Str(cfg['input']) if cfg.get('input') else None),
        parsetree=option(Str(cfg['parsetree'])) if cfg.get('parsetree') else option(), dot=option(Str(cfg['dot'])) if cfg.get('dot') else option(),
        truthtable=bool(cfg.get('truthtable')), model=bool(cfg.get('model')), vars=bool(cfg.get('vars')),
        filter=flt if flt is not None else any_, retain_choices=retain if retain is not None else any_,
        benchmark=option(cfg['benchmark']) if cfg.get('benchmark') is not None else option(),
        plot=False,
        evaluate=option(Str(cfg['evaluate'])) if cfg.get('evaluate') is not None else option(),
        ordering=option(Str(cfg['ordering'])) if cfg.get('ordering') else option(),
        export_ordering=bool(cfg.get('export_ordering')),
    )
    out = []
    for n in names:
        if n in known:
            out.append(known[n])
            continue
        # an option added by a changed tree: absent / false / its default
        t = types.get(n, '')
        if t.startswith('Option<'):
            out.append(option())
        elif t == 'bool':
            out.append(False)
        elif t in ('usize', 'u64', 'u32', 'i64'):
            out.append(0)
        elif t == 'TruthTableEntry':
            out.append(any_)
        else:
            raise Unsupported('Args has an unknown option `%s: %s`' % (n, t))
    return mk_struct('Args', out)


class Reader(Opaque):
    """a tagged byte source"""
    def __init__(self, tag):
        Opaque.__init__(self, 'reader:' + tag)
        self.tag = tag


def reader_tag(I, fr, v):
    seen = 0
    while seen < 12:
        seen += 1
        if isinstance(v, Reader):
            return v.tag
        if isinstance(v, Str) and isinstance(v.s, str):
            return 'inline:' + v.s
        try:
            nv = I.peel_all(v, fr)
        except Exception:
            nv = v
        if nv is v:
            if isinstance(v, BoxV):
                v = v.inner
                continue
            break
        v = nv
    return None


def install_main_hooks(I, w, cfg, sk, st):
    """st: dict collecting side information of the run (python side): problems found by the stubs"""
    T = I.models.table
    H = I.hooks
    tv = lambda name: I.defs.variant_index('SymbolicBDDToken', name)

    T[(None, None, 'args_os')] = lambda I2, fr, a, ck: Opaque('ArgsOs')
    T[(None, None, 'expand_args_from')] = lambda I2, fr, a, ck: mk('Result', 0, [Opaque('Vec<OsString>')])
    T[('Args', 'Parser', 'parse_from')] = lambda I2, fr, a, ck: st['args']
    T[('Args', 'Parser', 'parse')] = lambda I2, fr, a, ck: st['args']

    def file_open(I2, fr, a, ck):
        p = I2.peel_all(a[0], fr)
        if not (isinstance(p, Str) and isinstance(p.s, str)):
            raise Unsupported('File::open on a path that is not a concrete string')
        if p.s not in cfg.get('files', {}):
            return mk('Result', 1, [Opaque('io::Error(not found)')])
        return mk('Result', 0, [Reader('file:' + p.s)])
    T[('File', None, 'open')] = file_open

    def file_create(I2, fr, a, ck):
        p = I2.peel_all(a[0], fr)
        if not (isinstance(p, Str) and isinstance(p.s, str)):
            raise Unsupported('File::create on a path that is not a concrete string')
        return mk('Result', 0, [Reader('create:' + p.s)])
    T[('File', None, 'create')] = file_create

    def render(kind):
        def rec(I2, fr, a):
            # -d / -p: the graph descriptions themselves are verified by the C14 units (dotcore.py); here main's call
            # is recorded: which graph object, into which file
            gobj = I2.peel_all(a[0], fr)
            tag = reader_tag(I2, fr, a[1])
            log = fr.mem.get(STDOUT, Seq(()))
            m = dict(fr.mem)
            m[STDOUT] = Seq(log.items + (mk_tuple([Str('DOT'), Str(kind), gobj, Str(tag or '?')]),))
            fr.mem = m
            return mk('Result', 0, [UNIT])
        return rec
    H[('BDDGraph', None, 'render_dot')] = render('bdd')
    H[('SymbolicParseTree', None, 'render_dot')] = render('parse')
    T[(None, None, 'stdin')] = lambda I2, fr, a, ck: Reader('stdin')

    def bufreader_new(I2, fr, a, ck):
        t = reader_tag(I2, fr, a[0])
        if t is None:
            raise Unsupported('BufReader::new over %s' % type(a[0]).__name__)
        return Reader(t)
    T[('BufReader', None, 'new')] = bufreader_new

    def content_of(I2, fr, v):
        t = reader_tag(I2, fr, v)
        if t is None:
            raise Unsupported('read from an unknown source')
        if t.startswith('file:') and t[5:] in cfg.get('files', {}) and ('file:' + t[5:]) != cfg['channel']:
            return cfg['files'][t[5:]]
        if t.startswith('inline:') and t != cfg['channel']:
            return t[7:]
        if t == cfg['channel']:
            # main reads the formula itself (to hand the text on): it gets a sentinel; tokenizing the sentinel is
            # tokenizing the formula
            return FORMULA_TEXT
        raise Unsupported('main reads %s, which the configuration does not define' % t)

    def lines(I2, fr, a, ck):
        text = content_of(I2, fr, a[0])
        ls = text.split('\n')
        if ls and ls[-1] == '':
            ls = ls[:-1]
        return IterV('vals', [Seq([mk('Result', 0, [Str(l[:-1] if l.endswith('\r') else l)]) for l in ls]), 0])
    T[('BufReader', 'BufRead', 'lines')] = lines
    T[(None, 'BufRead', 'lines')] = lines

    def read_to_string(I2, fr, a, ck):
        text = content_of(I2, fr, a[0])
        old = I2.peel_all(a[1], fr)
        if not (isinstance(old, Str) and isinstance(old.s, str)):
            raise Unsupported('read_to_string into a non-concrete String')
        MM.write_mref(I2, fr, a[1], Str(old.s + text))
        return mk('Result', 0, [len(text)])
    for ty in ('Box', 'BufReader', 'File', 'Stdin', None):
        T[(ty, 'Read', 'read_to_string')] = read_to_string
    T[('String', None, 'as_bytes')] = lambda I2, fr, a, ck: mk_sref(I2.peel_all(a[0], fr))
    T[('str', None, 'as_bytes')] = T[('String', None, 'as_bytes')]
    T[('Instant', None, 'now')] = lambda I2, fr, a, ck: Opaque('Instant')
    T[('Instant', None, 'elapsed')] = lambda I2, fr, a, ck: Opaque('Duration')
    T[('io', None, '_eprint')] = lambda I2, fr, a, ck: UNIT
    H[(None, None, 'print_performance_results')] = lambda I2, fr, a: UNIT

    def env_new(I2, fr, a):
        del H[('BDDEnv', None, 'new')]
        try:
            env, mem = new_env(I2, fr.mem)
        finally:
            H[('BDDEnv', None, 'new')] = env_new
        fr.mem = mem
        return env
    H[('BDDEnv', None, 'new')] = env_new

    def eval_wrapper(I2, fr, a):
        """The operation contracts rely on the environment invariant (both terminals in the unique table, every entry's
        key == *value).  The operations preserve it (their own units); anything *else* that writes the table between two
        evaluations has to as well: checked here, on entry of every eval, whenever the table is no longer the abstract one."""
        pf = I2.peel_all(a[0], fr)
        names = I2.defs.structs['ParsedFormula']
        env = pf.alts[0][1][names.index('env')]
        envv = env.inner if isinstance(env, RcV) else env
        cellv = envv.alts[0][1][I2.defs.structs['BDDEnv'].index('nodes')]
        content = fr.mem[cellv.cell].content
        bad = False
        if isinstance(content, TableV):
            bad = gnot(gand(content.leaves[0], content.leaves[1]))
        elif isinstance(content, MapV):
            has = {0: False, 1: False}
            for g, kx, vx in content.items:
                if not (isinstance(kx, Adt) and kx.ty == 'BDD' and isinstance(vx, RcV)):
                    raise Unsupported('unique table entry of an unexpected shape')
                for leaf in (0, 1):
                    if leaf in kx.alts:
                        has[leaf] = gor(has[leaf], gand(g, kx.alts[leaf][0]))
                bad = gor(bad, gand(g, gnot(Veq(lenient=True).eq(kx, vx.inner))))
            bad = gor(bad, gnot(has[0]), gnot(has[1]))
        else:
            raise Unsupported('the unique table became a %s' % type(content).__name__)
        key = ('ParsedFormula', None, 'eval')
        it = I2.by_key[key]
        del H[key]
        try:
            outs = list(I2.call_item(it, a, fr.mem))
        finally:
            H[key] = eval_wrapper
        if not g_false(bad):
            outs = [Outcome('panic', bad, None, None, 'INVARIANT: the unique table lost a terminal / holds an entry with key != *value')] + \
                   [Outcome(o.kind, gand(gnot(bad), o.guard), o.value, o.mem, o.msg) for o in outs]
        return Outs(outs)
    H[('ParsedFormula', None, 'eval')] = eval_wrapper

    def tokenize(I2, fr, a):
        tag = reader_tag(I2, fr, a[0])
        if tag == 'inline:' + FORMULA_TEXT:
            tag = cfg['channel']            # the formula text main read from the right channel and passes on
        ordv = a[1]
        has_ord = isinstance(ordv, Adt) and 1 in ordv.alts and g_true(ordv.alts[1][0])
        want = cfg['channel']
        if cfg.get('fails') == 'ordering' and tag is not None and tag != want:
            return mk('Result', 1, [Opaque('io::Error(Unknown token)')])
        if cfg.get('fails') == 'formula' and tag == want:
            return mk('Result', 1, [Opaque('io::Error(Unknown token)')])
        if tag is not None and tag != want and not has_ord and (tag.startswith('inline:') or tag[5:] in cfg.get('files', {})):
            # a concrete text other than the formula (the ordering file, or a piece of it): its reference tokenization
            text = tag[7:] if tag.startswith('inline:') else cfg['files'][tag[5:]]
            toks = []
            ids = {}
            for name in reference_identifiers(text):
                if name not in ids:
                    ids[name] = len(ids)
                toks.append(mk('SymbolicBDDToken', tv('Var'), [mk_struct('NamedSymbol', [mk_rc(Str(name)), ids[name]])]))
            toks.append(mk('SymbolicBDDToken', tv('Eof'), []))
            return mk('Result', 0, [Seq(toks)])
        if tag != want:
            st.setdefault('problems', []).append('the formula is read from %r, the command line names %r' % (tag, want))
        from_parser = any(key == ('ParsedFormula', None, 'new_with_env') for key, _ in I2.call_stack)
        if cfg.get('ordering') and not from_parser and not has_ord:
            # main itself tokenizes the formula (without an ordering): the tokenizer's contract numbers the variables
            # by first appearance - defined here only when the sketch's variable occurrences are concrete
            occ = concrete_occurrences(st['shape'])
            if occ is None:
                raise Unsupported('main tokenizes the formula itself under -o: needs a sketch with concrete variable occurrences')
            ids = {}
            toks = []
            for i in occ:
                nm = cfg['names'][i]
                ids.setdefault(nm, len(ids))
                toks.append(mk('SymbolicBDDToken', tv('Var'), [mk_struct('NamedSymbol', [mk_rc(Str(nm)), ids[nm]])]))
            toks.append(mk('SymbolicBDDToken', tv('Eof'), []))
            return mk('Result', 0, [Seq(toks)])
        if cfg.get('ordering'):
            if not has_ord:
                st.setdefault('problems', []).append('-o is given but no ordering vector reaches the parser')
                raise StubProblem()
            vec = I2.peel_all(ordv.alts[1][1][0], fr)
            got = []
            for e in vec.items:
                nm, idv = e.alts[0][1]
                nm = nm.inner if isinstance(nm, RcV) else nm
                if not (isinstance(nm, Str) and isinstance(nm.s, str) and isinstance(idv, int)):
                    raise Unsupported('ordering vector with a non-concrete entry')
                got.append((nm.s, idv))
            listed = []
            for n in reference_identifiers(cfg['files'][cfg['ordering']]):
                if n not in listed:
                    listed.append(n)
            st['ordering_vector'] = got
            if [n for n, _ in got] != listed or any(got[i][1] >= got[i + 1][1] for i in range(len(got) - 1)):
                st.setdefault('problems', []).append('the ordering vector handed to the parser is %s; the file lists %s (distinct names in file order need strictly increasing ids)' % (got, listed))
                raise StubProblem()
            # the tokenizer's contract: a listed name keeps its id, a new name gets the next id above all listed ones
            idof = dict(got)
            nxt = (max(idof.values()) + 1) if idof else 0
            new = [n for n in cfg['names'] if n not in idof]
            if len(new) > 1:
                raise EngineError('configuration with more than one unlisted formula variable (their order would depend on the sketch)')
            for n in new:
                idof[n] = nxt
                nxt += 1
            order = sorted(cfg['names'], key=lambda n: idof[n])
            w2 = world_for(len(order), seed_ids=[idof[n] for n in order])
            prepare(I2, st, w2, order)
        elif has_ord:
            st.setdefault('problems', []).append('an ordering vector is passed although no -o was given')
        return mk('Result', 0, [st['tokens']])
    H[('SymbolicBDD', None, 'tokenize')] = tokenize
    H[('SymbolicBDD', None, 'parse_formula')] = lambda I2, fr, a: (mk('Result', 1, [Opaque('io::Error(parse error)')]) if cfg.get('fails') == 'parse' else mk('Result', 0, [st['tree']]))

    # recorders
    printcore.install_print_hooks(I)

    def header(I2, fr, a):
        labels = I2.peel_all(a[0], fr)
        log = fr.mem.get(STDOUT, Seq(()))
        m = dict(fr.mem)
        m[STDOUT] = Seq(log.items + (mk_tuple([Str('HEADER'), labels]),))
        fr.mem = m
        return UNIT
    H[(None, None, 'print_header')] = header

    def true_vars(I2, fr, a):
        # -v: the recursion itself is verified by its own unit (printcore.unit_print_vars) for every canonical diagram;
        # here main's call is recorded: (diagram, entries, headers)
        log = fr.mem.get(STDOUT, Seq(()))
        m = dict(fr.mem)
        m[STDOUT] = Seq(log.items + (mk_tuple([Str('VARS'), I2.peel_all(a[0], fr), I2.peel_all(a[1], fr), I2.peel_all(a[2], fr)]),))
        fr.mem = m
        return UNIT
    H[(None, None, 'print_true_vars_recursive')] = true_vars


class StubProblem(Exception):
    pass


def concrete_occurrences(shape):
    """variable occurrences of a sketch shape in text order when all of them are concrete ('VC' leaves, no binders),
    else None"""
    if isinstance(shape, str):
        return None if shape in ('L', 'V') else []
    kind = shape[0]
    if kind == 'VC':
        return [shape[1]]
    if kind in ('L', 'V', 'q', 'fp'):
        return None
    out = []
    subs = shape[1:]
    if kind == 'bin':
        subs = shape[1:3]
    elif kind == 'cc':
        subs = shape[1]
    elif kind == 'cv':
        subs = list(shape[1]) + list(shape[2])
    for sub in subs:
        if isinstance(sub, (tuple, str)):
            r = concrete_occurrences(sub)
            if r is None:
                return None
            out += r
    return out


def prepare(I, st, w, names):
    """world-dependent parts of a run: names, operation contracts, the sketch and its token / tree values"""
    w.distinct_names = True
    w.names = list(names)
    w.syms = [w.symbol(w.ids[i], w.names[i]) for i in range(w.k)]
    install_summaries(I, w, evalcore.ALL_CONTRACTS)
    evalcore.install_eq_summary(I, w)
    sk = evalcore.Sketch(st['shape'], w.k)
    st.update(w=w, sk=sk, tokens=c09.token_values(I, w, sk), tree=evalcore.to_value(I, w, sk.tree))


def reference_identifiers(text):
    """identifiers of an ordering file in order of appearance (the tokenizer's contract for variables: maximal runs of
    [A-Za-z0-9_'] starting with a letter or underscore that are not keywords; anything else is punctuation here)"""
    import re
    kw = {'true', 'false', 'not', 'and', 'or', 'xor', 'nor', 'nand', 'implies', 'in', 'eq', 'forall', 'all', 'exists', 'any', 'if', 'then', 'else',
          'gfp', 'lfp', 'sum', 'iff'}
    out = []
    for m in re.finditer(r"[A-Za-z_][A-Za-z0-9_']*", text):
        if m.group(0) not in kw:
            out.append(m.group(0))
    return out


def run_main(cfg, shape, k, opts):
    I = load('rsbdd', dict(opts.get('config') or {}, format_symbolic=True, loop_bound=opts.get('loop_bound', 4 * (1 << k) + 8)))
    if opts.get('mutate'):
        apply_mir_mutation(I, opts['mutate'])
    flt, fsel, fcons = (bddcore.filter_value('flt') if cfg.get('filter') == 'symbolic' else (None, None, []))
    st = dict(args=None, shape=shape)
    if not cfg.get('ordering'):
        prepare(I, st, world_for(k), ['v%d' % i for i in range(k)])
    rc, rsel, rcons = (bddcore.filter_value('rc') if cfg.get('retain') == 'symbolic' else (None, None, []))
    st['retain'] = (rc, rsel, rcons)
    st['args'] = args_value(I, cfg, flt, rc)
    install_main_hooks(I, None, cfg, None, st)
    it = I.by_key.get((None, None, 'main'))
    if it is None:
        raise Unsupported('fn main not found in src/bin/rsbdd.rs')
    try:
        outs = I.call_item(it, [], {STDOUT: Seq(())})
    except StubProblem:
        outs = None
    return I, st.get('w'), st.get('sk'), st, outs, (flt, fsel, fcons)


# ------------------------------------------------------------------------------------------------ obligations

def _is_header(x):
    return isinstance(x, Adt) and x.ty == 'tuple' and isinstance(x.alts[0][1][0], Str) and x.alts[0][1][0].s == 'HEADER'


def _is_vars(x):
    return isinstance(x, Adt) and x.ty == 'tuple' and isinstance(x.alts[0][1][0], Str) and x.alts[0][1][0].s == 'VARS'


def _is_dot(x):
    return isinstance(x, Adt) and x.ty == 'tuple' and isinstance(x.alts[0][1][0], Str) and x.alts[0][1][0].s == 'DOT'


def _line_eq(item, want):
    """Bool: the recorded println item is the text `want`"""
    if isinstance(item, str):
        return item == 'LINE:' + want
    if isinstance(item, Str):
        return Veq().eq(item, Str(want))
    return False


def subsets(k, n):
    import itertools
    return list(itertools.combinations(range(k), n))


def unit_main(cfg, shape, k, opts):
    """cfg: dict(channel, evaluate|input|stdin, truthtable, vars, model, export_ordering, benchmark, filter)"""
    I, w, sk, st, outs, (flt, fsel, fcons) = run_main(cfg, shape, k, opts)
    if outs is None:
        # a stub found main driving it against the command line before any formula was looked at: the witness formula
        # is the exclusive or of all variables (it depends on each of them)
        names = list(cfg.get('names') or ['v%d' % i for i in range(k)])
        tree = ['leaf', 'var', 0]
        for i in range(1, len(names)):
            tree = ['bin', 'Xor', tree, ['leaf', 'var', i]]
        t = fsem.tree_from_json(tree, len(names))
        c = dict(kind='cli', text=fsem.to_text(t, names), names=names, ids=list(range(len(names))), k=len(names), tree=tree,
                 cfg={x: cfg[x] for x in cfg if x != 'files'}, filter='Any')
        if cfg.get('ordering'):
            c['ordering_text'] = cfg['files'][cfg['ordering']]
        res = dict(queries=[dict(name='the stubs are driven as the command line says', result='sat', expect='unsat', time=0.0, backend='run', size=0)], method='main')
        res['cex'] = dict(obligation='plumbing: ' + '; '.join(sorted(set(st['problems']))), case=c)
        res.update(interp_summary(I))
        res['sample'] = dict(unit='main under %s' % cfg_text(cfg), outcome='aborted by a stub: ' + '; '.join(st['problems']))
        return res
    rets, pc, pm = outcome_split(outs)
    if cfg.get('fails') and w is None:
        # main stopped before the formula was looked at (the ordering file could not be tokenized)
        res = dict(queries=[], method='main', outcomes=len(rets))
        not_err = False
        for r in rets:
            v = r.value
            iserr = v.alts[1][0] if isinstance(v, Adt) and v.ty == 'Result' and 1 in v.alts else False
            not_err = gor(not_err, gand(r.guard, gor(gnot(iserr), len(r.mem[STDOUT].items) > 0)))
        for nm, neg in (('main does not panic', pc), ('a tokenizer error (%s) is returned as Err by main and nothing is printed' % cfg['fails'], not_err)):
            q = decide(nm, [], neg, timeout_s=60)
            q['expect'] = 'unsat'
            q.pop('model', None)
            res['queries'].append(q)
            if q['result'] != 'unsat':
                res['status'] = 'inconclusive'
                res['error'] = '"%s" is %s' % (nm, q['result'])
        res.update(interp_summary(I))
        res['sample'] = dict(unit='main under %s with a failing %s' % (cfg_text(cfg), cfg['fails']), outcomes=len(rets), obligations=[q['name'] for q in res['queries']])
        return res
    inv_bad = gor(*[g for msg, g in pm if str(msg).startswith('INVARIANT')]) if pm else False
    unwound = gor(*[g for msg, g in pm if str(msg).startswith('UNWIND')]) if pm else False
    pc = gor(*[g for msg, g in pm if not str(msg).startswith(('INVARIANT', 'UNWIND'))]) if pm else False
    names = w.names
    U = opts.get('fp_bound', (1 << k) + 1)
    ref = fsem.Sem(k, U)
    exp = ref.sem(sk.tree)
    free = fsem.free_atoms(sk.tree, k)
    occ = [False] * k
    for sym, gvar, _ in fsem.symbol_occurrences(sk.tree):
        for i in range(k):
            occ[i] = gor(occ[i], gand(gvar, sym.sel[i]))
    rc, rsel, rcons = st['retain']
    assumptions = list(w.constraints) + sk.cons + [gnot(ref.nonconv)] + list(fcons) + list(rcons)
    sig = [z3.Bool('sg%d' % i) for i in range(k)]
    val = False
    for j, sg in enumerate(all_assignments(k)):
        val = gor(val, gand(exp[j], *[(sig[i] if sg[i] else gnot(sig[i])) for i in range(k)]))
    sat = gor(*exp)
    if fsel is not None:
        admitted = gor(fsel[2], gand(fsel[0], val), gand(fsel[1], gnot(val)))
    else:
        admitted = True
    bad_ret = bad_shape = bad_r = bad_hdr = bad_count = bad_val = bad_model = bad_v = bad_dot = False
    for r in rets:
        v = r.value
        if isinstance(v, Adt) and v.ty == 'Result':
            bad_ret = gor(bad_ret, gand(r.guard, v.alts[1][0] if 1 in v.alts else False))
        log = list(r.mem[STDOUT].items)
        dots = [x for x in log if _is_dot(x)]
        log = [x for x in log if not _is_dot(x)]
        hpos = [i for i, x in enumerate(log) if _is_header(x)]
        vpos = [i for i, x in enumerate(log) if _is_vars(x)]
        rowpos = [i for i, x in enumerate(log) if isinstance(x, Adt) and x.ty == 'tuple' and not _is_header(x) and not _is_vars(x)]
        linepos = [i for i, x in enumerate(log) if not (isinstance(x, Adt) and x.ty == 'tuple')]
        ok_shape = True
        if cfg.get('truthtable'):
            ok_shape = len(hpos) == 1 and all(p > hpos[0] for p in rowpos)
        else:
            ok_shape = not hpos and not rowpos
        rl = [p for p in linepos if (not hpos or p < hpos[0])] if cfg.get('export_ordering') else []
        if [p for p in linepos if p not in rl]:
            ok_shape = False
        if len(vpos) != (1 if cfg.get('vars') else 0) or any(p < max([-1] + hpos + rowpos + rl) for p in vpos):
            ok_shape = False
        want_dots = [kind for kind, opt in (('parse', 'parsetree'), ('bdd', 'dot')) if cfg.get(opt)]
        if [x.alts[0][1][1].s for x in dots] != want_dots:
            ok_shape = False
        if not ok_shape:
            bad_shape = gor(bad_shape, r.guard)
            continue
        for x in dots:
            _, kind_, gobj, tag = x.alts[0][1]
            if kind_.s == 'parse':
                fields_ = I.defs.structs['SymbolicParseTree']
                tree_ = gobj.alts[0][1][fields_.index('internal_tree')]
                okd = gand(Veq().eq(tree_, st['tree']), tag.s == 'create:' + cfg['parsetree'])
            else:
                fields_ = I.defs.structs['BDDGraph']
                root_ = gobj.alts[0][1][fields_.index('root')]
                flt_ = gobj.alts[0][1][fields_.index('filter')]
                rt = w.tt_of(root_)
                if rt is None:
                    sem = Sem(w)
                    rt = [sem.eval(root_, sg) for sg in all_assignments(k)]
                if cfg.get('model'):
                    okf = gand(gand(*[gor(gnot(a), b) for a, b in zip(rt, exp)]), beq(gor(*rt), sat))
                elif rsel is not None:
                    okf = gor(gand(rsel[2], *[beq(a, b) for a, b in zip(rt, exp)]), gand(rsel[0], *[gor(gnot(b), a) for a, b in zip(rt, exp)]),
                              gand(rsel[1], *[gor(gnot(a), b) for a, b in zip(rt, exp)]))
                else:
                    okf = gand(*[beq(a, b) for a, b in zip(rt, exp)])
                want_f = flt if flt is not None else mk('TruthTableEntry', 2, [])
                okd = gand(okf, Veq().eq(flt_, want_f), tag.s == 'create:' + cfg['dot'])
            bad_dot = gor(bad_dot, gand(r.guard, gnot(okd)))
        # -r: the occurring variables in variable order, one per line
        if cfg.get('export_ordering'):
            okr = False
            for S in subsets(k, len(rl)):
                cond = gand(*[(occ[i] if i in S else gnot(occ[i])) for i in range(k)])
                okr = gor(okr, gand(cond, *[_line_eq(log[rl[j]], names[S[j]] + '\n') for j in range(len(S))]))
            bad_r = gor(bad_r, gand(r.guard, gnot(okr)))
        ncols = None
        if hpos:
            labels = log[hpos[0]].alts[0][1][1]
            ncols = len(labels.items) - 1
        for S in (subsets(k, ncols) if ncols is not None and 0 <= ncols <= k else []):
            cond = gand(*[(free[i] if i in S else gnot(free[i])) for i in range(k)])
            if g_false(cond):
                continue
            okh = gand(*([Veq().eq(labels.items[j], Str(names[S[j]])) for j in range(len(S))] + [Veq().eq(labels.items[len(S)], Str('*'))]))
            bad_hdr = gor(bad_hdr, gand(r.guard, cond, gnot(okh)))
            ms = []
            anytrue = False
            for p in rowpos:
                rl_, leaf = log[p].alts[0][1]
                if len(rl_.items) != len(S):
                    bad_hdr = gor(bad_hdr, gand(r.guard, cond))
                    continue
                m = gand(*[entry_matches(rl_.items[j], sig[S[j]]) for j in range(len(S))])
                ms.append(m)
                isT = leaf.alts[1][0] if 1 in leaf.alts else False
                anytrue = gor(anytrue, isT)
                if cfg.get('model'):
                    bad_model = gor(bad_model, gand(r.guard, cond, m, isT, gnot(val)))
                    if fsel is not None:
                        # a printed row is one the filter admits
                        bad_model = gor(bad_model, gand(r.guard, cond, gor(gand(fsel[0], gnot(isT)), gand(fsel[1], isT))))
                elif rsel is not None:
                    # -c: True keeps every satisfying assignment (f => g), False adds none (g => f), Any changes nothing
                    okc = gor(gand(rsel[2], beq(isT, val)), gand(rsel[0], gor(gnot(val), isT)), gand(rsel[1], gor(gnot(isT), val)))
                    bad_val = gor(bad_val, gand(r.guard, cond, m, gnot(okc)))
                else:
                    bad_val = gor(bad_val, gand(r.guard, cond, m, gnot(beq(isT, val))))
            atleast = gor(*ms) if ms else False
            twice = gor(*[gand(ms[i], ms[j]) for i in range(len(ms)) for j in range(i + 1, len(ms))]) if len(ms) > 1 else False
            if cfg.get('model'):
                # -m: the rows partition the space for *some* g with g => f, and g is satisfiable iff f is (under a
                # filter only the admitted rows of that g are printed)
                fany = fsel[2] if fsel is not None else True
                ftrue = gor(fsel[2], fsel[0]) if fsel is not None else True
                bad_count = gor(bad_count, gand(r.guard, cond, gor(twice, gand(fany, gnot(atleast)))))
                bad_model = gor(bad_model, gand(r.guard, cond, ftrue, gnot(beq(anytrue, sat))))
            else:
                bad_count = gor(bad_count, gand(r.guard, cond, gor(twice, gnot(beq(atleast, admitted)))))
        if ncols is not None and not (0 <= ncols <= k):
            bad_hdr = gor(bad_hdr, r.guard)
        if hpos:
            # the number of columns itself: exactly the free variables
            okn = gor(*[gand(*[(free[i] if i in S else gnot(free[i])) for i in range(k)]) for S in subsets(k, ncols)]) if 0 <= ncols <= k else False
            bad_hdr = gor(bad_hdr, gand(r.guard, gnot(okn)))
        if cfg.get('vars'):
            _, root, entries, hdrs = log[vpos[0]].alts[0][1]
            if cfg.get('model') or rsel is not None:
                rt = w.tt_of(root)
                if rt is None:
                    sem = Sem(w)
                    rt = [sem.eval(root, sg) for sg in all_assignments(k)]
                if cfg.get('model'):
                    okv = gand(gand(*[gor(gnot(a), b) for a, b in zip(rt, exp)]), beq(gor(*rt), sat))
                else:
                    okv = gor(gand(rsel[2], *[beq(a, b) for a, b in zip(rt, exp)]), gand(rsel[0], *[gor(gnot(b), a) for a, b in zip(rt, exp)]),
                              gand(rsel[1], *[gor(gnot(a), b) for a, b in zip(rt, exp)]))
            else:
                okv = evalcore.result_tt_eq(w, root, exp)
            # the recursion reads headers[i] for the i-th free variable only: what comes after them is not observable
            n = len(entries.items)
            okh = False
            for S in (subsets(k, n) if 0 <= n <= k and len(hdrs.items) >= n else []):
                cond = gand(*[(free[i] if i in S else gnot(free[i])) for i in range(k)])
                okh = gor(okh, gand(cond, *[Veq().eq(hdrs.items[j], Str(names[S[j]])) for j in range(n)]))
            oke = all(isinstance(e, Adt) and e.ty == 'TruthTableEntry' and set(e.alts) == {2} for e in entries.items)
            bad_v = gor(bad_v, gand(r.guard, gnot(gand(okv, okh, oke))))
    res = dict(queries=[], method='main', outcomes=len(rets))
    cex = None

    def case(model):
        model = model or {}
        c = evalcore.formula_case(sk, w, k, model)
        c['kind'] = 'cli'
        c['cfg'] = {x: cfg[x] for x in cfg if x not in ('files',)}
        if cfg.get('ordering'):
            c['ordering_text'] = cfg['files'][cfg['ordering']]
        if fsel is not None:
            c['filter'] = ['True', 'False', 'Any'][bddcore.sel_index(model, 'flt', 3)]
        else:
            c['filter'] = 'Any'
        if rsel is not None:
            c['retain'] = ['True', 'False', 'Any'][bddcore.sel_index(model, 'rc', 3)]
        return c

    def ask(name, neg, expect='unsat'):
        nonlocal cex
        if neg is False:
            res['queries'].append(dict(name=name, result='unsat', expect=expect, time=0.0, backend='constant', size=0))
            return
        q = decide(name, assumptions, neg, timeout_s=opts.get('timeout', 250))
        q['expect'] = expect
        m = q.pop('model', None)
        res['queries'].append(q)
        if q['result'] == 'sat' and expect == 'unsat' and cex is None:
            cex = dict(obligation=name, case=case(m))
        elif q['result'] not in ('sat', 'unsat'):
            res['status'] = 'inconclusive'
            res['error'] = 'solver: ' + q['result']
    if st.get('problems'):
        res['queries'].append(dict(name='the stubs are driven as the command line says', result='sat', expect='unsat', time=0.0, backend='run', size=0))
        cex = dict(obligation='plumbing: ' + '; '.join(sorted(set(st['problems']))), case=case({}))
    ask('assumptions-satisfiable', True, 'sat')
    ask('every loop of main stays within the unrolling bound', unwound)
    if res['queries'][-1]['result'] == 'sat':
        # outside the bound: nothing is claimed (and nothing reported)
        cex = None
        res['status'] = 'inconclusive'
        res['error'] = 'a loop of main exceeds the unrolling bound %d' % I.cfg.get('loop_bound', 0)
    ask('main does not panic', pc)
    if cfg.get('fails'):
        # an error reported by the tokenizer / parser must come out of main as Err, with nothing printed
        not_err = False
        for r in rets:
            v = r.value
            iserr = v.alts[1][0] if isinstance(v, Adt) and v.ty == 'Result' and 1 in v.alts else False
            printed = len(r.mem[STDOUT].items) > 0
            not_err = gor(not_err, gand(r.guard, gor(gnot(iserr), printed)))
        ask('a tokenizer / parser error (%s) is returned as Err by main and nothing is printed' % cfg['fails'], not_err)
        res.update(interp_summary(I))
        res['cex'] = None if cex is None else cex
        res['sample'] = dict(unit='main under %s with a failing %s' % (cfg_text(cfg), cfg['fails']), outcomes=len(rets), obligations=[q['name'] for q in res['queries']])
        return res
    ask('the unique table keeps both terminals and key == *value whatever main does to it between evaluations', inv_bad)
    ask('main returns Ok', bad_ret)
    ask('stdout has the documented structure (-r lines, header, rows, -v lines)', bad_shape)
    if cfg.get('export_ordering'):
        ask('-r prints the variables of the formula in variable order', bad_r)
    if cfg.get('truthtable'):
        ask('the header lists exactly the free variables in variable order', bad_hdr)
        ask('every total assignment is covered by exactly one row when the filter admits its value and by none otherwise', bad_count)
        if cfg.get('model'):
            ask('-m: every assignment of a True row satisfies the formula, and a True row exists iff the formula is satisfiable', bad_model)
        else:
            ask('the result column of the covering row is the value of the formula' + (' (-c True: implied by it, -c False: implies it)' if rsel is not None else ''), bad_val)
    if cfg.get('dot') or cfg.get('parsetree'):
        ask('-d / -p: the graph handed to the DOT renderer is the evaluated diagram with the filter / the parsed tree, written to the named file', bad_dot)
    if cfg.get('vars'):
        ask('-v: print_true_vars_recursive is called once, after everything else, with the diagram of the formula (of a model of it under -m, of its -c reduct under -c), all-Any entries and the free-variable names', bad_v)
    res.update(interp_summary(I))
    res['summaries_used'] = I.cfg.get('summaries_used', {})
    res['cex'] = cex
    res['sample'] = dict(unit='main of src/bin/rsbdd.rs under %s, formula sketch %r k=%d' % (cfg_text(cfg), shape, k), outcomes=len(rets),
                         obligations=[q['name'] for q in res['queries']])
    return res


def cfg_text(cfg):
    out = []
    if cfg.get('evaluate') is not None:
        out.append('-e <formula>')
    if cfg.get('input'):
        out.append('<file>')
    if cfg['channel'] == 'stdin':
        out.append('< stdin')
    for flag, opt in (('truthtable', '-t'), ('vars', '-v'), ('model', '-m'), ('export_ordering', '-r')):
        if cfg.get(flag):
            out.append(opt)
    if cfg.get('filter') == 'symbolic':
        out.append('-f <any>')
    if cfg.get('retain') == 'symbolic':
        out.append('-c <any>')
    if cfg.get('benchmark') is not None:
        out.append('-b %d' % cfg['benchmark'])
    if cfg.get('dot'):
        out.append('-d <file>')
    if cfg.get('parsetree'):
        out.append('-p <file>')
    if cfg.get('ordering'):
        out.append('-o <%s>' % cfg['files'][cfg['ordering']].replace('\n', '\\n'))
    return ' '.join(out)


# ------------------------------------------------------------------------------------------------ replay through the real CLI

def first_appearance(text, names):
    seen = []
    for n in reference_identifiers(text):
        if n in names and n not in seen:
            seen.append(n)
    return seen


def cli_run(case, with_ordering):
    """run the real binary on the case; -> (args shown, rc, stdout, stderr, variable order used)"""
    import tempfile, os
    cfg = case['cfg']
    d = tempfile.mkdtemp(dir=tmpdir())
    args = []
    stdin_text = None
    text = case['text']
    if cfg.get('evaluate') is not None:
        args += ['-e', text]
    elif cfg.get('input'):
        f = os.path.join(d, 'formula.txt')
        open(f, 'w').write(text + '\n')
        args += [f]
    else:
        stdin_text = text + '\n'
    for flag, opt in (('truthtable', '-t'), ('vars', '-v'), ('model', '-m'), ('export_ordering', '-r')):
        if cfg.get(flag):
            args.append(opt)
    if case.get('filter', 'Any') != 'Any' or cfg.get('filter') == 'symbolic':
        args += ['-f', case.get('filter', 'Any')]
    if cfg.get('benchmark') is not None:
        args += ['-b', str(cfg['benchmark'])]
    if case.get('retain'):
        args += ['-c', case['retain']]
    outfiles = {}
    for opt, flag in (('dot', '-d'), ('parsetree', '-p')):
        if cfg.get(opt):
            outfiles[opt] = os.path.join(d, opt + '.dot')
            args += [flag, outfiles[opt]]
    case['_outfiles'] = outfiles
    names = case['names']
    shown = list(args)
    if case.get('ordering_text') is not None:
        of = os.path.join(d, 'order.txt')
        open(of, 'w').write(case['ordering_text'])
        args += ['-o', of]
        shown += ['-o', '<%s>' % case['ordering_text'].replace('\n', '\\n')]
        listed = []
        for n in reference_identifiers(case['ordering_text']):
            if n not in listed:
                listed.append(n)
        order = listed + [n for n in first_appearance(text, names) if n not in listed]
    elif with_ordering:
        ids = printcore.compress_ids(sorted(case['ids']))
        byid = [n for _, n in sorted(zip(case['ids'], names))]
        ot = printcore.ordering_text(byid, ids)
        of = os.path.join(d, 'order.txt')
        open(of, 'w').write(ot)
        args += ['-o', of]
        shown += ['-o', '<%s>' % ot]
        order = byid
    else:
        order = first_appearance(text, names)
    rc, out, err = printcore.run_rsbdd(args, stdin_text)
    return shown, rc, out, err, order


def judge_cli(case, with_ordering):
    k = case['k']
    names = case['names']
    cfg = case['cfg']
    tree = fsem.tree_from_json(case['tree'], k)
    ref = fsem.Sem(k, (1 << k) + 1)
    tt = ref.sem(tree)
    if not (isinstance(ref.nonconv, bool) and not ref.nonconv):
        return None, 'reference fixed point does not converge within the bound: outside the claim'
    tt = [bool(x) for x in tt]
    fr = fsem.free_atoms(tree, k)
    shown, rc, out, err, order = cli_run(case, with_ordering)
    import os
    written = {opt: (open(f).read() if os.path.exists(f) else '') for opt, f in case.pop('_outfiles', {}).items()}
    case.setdefault('cli', []).append(dict(args=shown, rc=rc, stdout=(out or '')[-1200:], stderr=(err or '')[-400:], files={o: t[-1500:] for o, t in written.items()}))
    if rc is None:
        return True, 'hang: no answer within the time limit'
    if rc != 0:
        if 'panicked' in err:
            ls = err.split('\n')
            at = [i for i, l in enumerate(ls) if 'panicked' in l][0]
            return True, 'panic: ' + ' '.join(x.strip() for x in ls[at:at + 2])[:200]
        return True, 'exit status %s: %s' % (rc, err.strip()[-160:])
    occ = [n for n in names if n in reference_identifiers(case['text'])]
    free = [n for n in order if n in names and fr[names.index(n)]]
    lines = out.split('\n')
    pre = []
    i = 0
    while i < len(lines) and not lines[i].startswith('|') and not lines[i].endswith(';'):
        if lines[i].strip():
            pre.append(lines[i].strip())
        i += 1
    if cfg.get('export_ordering'):
        want = [n for n in order if n in occ]
        if pre != want:
            return True, '-r printed %s, the variables in variable order are %s' % (pre, want)
    elif pre:
        return True, 'unexpected output before the table: %s' % pre[:3]
    val = lambda sg: tt[sum((1 << (k - 1 - i)) for i in range(k) if sg[names[i]])]
    flt = case.get('filter', 'Any')
    if cfg.get('truthtable'):
        header, rows = printcore.parse_table(out)
        if header is None:
            return True, 'no table printed'
        if [h for h in header if h != '*'] != free:
            return True, 'header %s, free variables in variable order %s' % (header, free)
        anytrue = any(r[-1] == 'True' for r in rows)
        for j in range(1 << k):
            sg = {names[i]: bool((j >> (k - 1 - i)) & 1) for i in range(k)}
            v = val(sg)
            cover = [r for r in rows if all(c == 'Any' or (c == 'True') == sg[n] for n, c in zip(free, r[:-1]))]
            if cfg.get('model'):
                if len(cover) != 1:
                    return True, '-m: assignment %s is covered by %d rows' % (sg, len(cover))
                if cover[0][-1] == 'True' and not v:
                    return True, '-m: row %s is marked True but the formula is False under %s' % (cover[0], sg)
            else:
                rt = case.get('retain') or 'Any'
                if rt != 'Any':
                    if len(cover) != 1:
                        return True, '-c %s: assignment %s is covered by %d rows' % (rt, sg, len(cover))
                    g = cover[0][-1] == 'True'
                    if (rt == 'True' and v and not g) or (rt == 'False' and g and not v):
                        return True, '-c %s: row %s reports %s, the formula is %s under %s' % (rt, cover[0], g, v, sg)
                    continue
                admitted = flt == 'Any' or (flt == 'True') == v
                if len(cover) != (1 if admitted else 0):
                    return True, 'assignment %s (value %s) is covered by %d rows under filter %s' % (sg, v, len(cover), flt)
                if cover and (cover[0][-1] == 'True') != v:
                    return True, 'row %s reports %s, the formula is %s under %s' % (cover[0], cover[0][-1], v, sg)
        if cfg.get('model') and anytrue != any(tt):
            return True, '-m: a True row is %s but the formula is %s' % ('printed' if anytrue else 'missing', 'satisfiable' if any(tt) else 'unsatisfiable')
    if 'parsetree' in written:
        import dotcore
        problem = dotcore.check_parse_dot(written['parsetree'], case['tree'], names)
        if problem:
            return True, '-p: ' + problem
    if 'dot' in written:
        import dotcore
        rel = 'model' if cfg.get('model') else {'True': 'implied', 'False': 'implies'}.get(case.get('retain') or 'Any', 'eq')
        problem = dotcore.check_bdd_dot(written['dot'], names, tt, flt, rel)
        if problem:
            return True, '-d: ' + problem
    if cfg.get('vars'):
        vl = [l for l in lines if l.endswith(';')]
        for j in range(1 << k):
            sg = {names[i]: bool((j >> (k - 1 - i)) & 1) for i in range(k)}
            cover = 0
            for l in vl:
                items = [x.strip() for x in l[:-1].split(',') if x.strip()]
                if all((sg[n] if n in items else (True if n + '*' in items else not sg[n])) for n in free):
                    cover += 1
            if cover != (1 if val(sg) else 0):
                return True, '-v: assignment %s (value %s) is covered by %d lines %s' % (sg, val(sg), cover, vl)
    return False, 'agrees'


def replay_cli(rep, pid, name, cex):
    case = cex['case']
    case.update(obligation=cex['obligation'], unit=name)
    verdicts = []
    tries = [False] if case.get('ordering_text') is not None else [False, True]
    for with_ordering in tries:
        v, desc = judge_cli(case, with_ordering)
        verdicts.append((v, desc, with_ordering))
        if v:
            break
    path = save_replay(pid, case)
    hit = [x for x in verdicts if x[0]]
    if hit:
        v, desc, wo = hit[0]
        shown = case['cli'][-1]['args']
        kind = 'panic' if desc.startswith('panic') else ('hang' if desc.startswith('hang') else 'wrong')
        flags = '+'.join(sorted(x for x in ('truthtable', 'vars', 'model', 'export_ordering', 'benchmark', 'ordering', 'input', 'retain', 'dot', 'parsetree') if case['cfg'].get(x) not in (None, False)))
        rep.violations.append(('cli:%s:%s' % (flags, kind), '`rsbdd %s`: %s' % (' '.join(shown), desc), path))
        print('CONFIRMED rsbdd %s: %s' % (' '.join(shown), desc))
    else:
        rep.inconclusive.append('%s: counterexample of "%s" did not reproduce through the CLI (%s)' % (name, cex['obligation'], verdicts[-1][1]))
        print('NOT-REPRODUCED %s: %s' % (name, verdicts[-1][1]))


# ------------------------------------------------------------------------------------------------ job lists

E = dict(evaluate='F', channel='inline:F')
B2 = ('bin', 'L', 'L')
Q1 = ('q', 1, ('bin', 'L', 'L'))


def jobs_output(quick):
    """C10: -t / -v / -m / -r / -b N / the three input channels"""
    js = []

    def add(cfg, shape, k, **opts):
        js.append(('main [%s] sketch %r k=%d' % (cfg_text(cfg), shape, k), unit_main, (cfg, shape, k, opts)))
    add(dict(E, truthtable=True, filter='symbolic'), B2, 3)
    add(dict(E, truthtable=True, filter='symbolic'), Q1, 3)
    add(dict(input='f.txt', files={'f.txt': ''}, channel='file:f.txt', truthtable=True, filter='symbolic'), B2, 2)
    add(dict(channel='stdin', truthtable=True, filter='symbolic'), B2, 2)
    for n in (1, 2, 3):
        add(dict(E, truthtable=True, filter='symbolic', benchmark=n), B2, 3 if n == 2 else 2)
    add(dict(E, truthtable=True, benchmark=2), Q1, 3)
    add(dict(E, truthtable=True, model=True), B2, 3)
    add(dict(E, vars=True), B2, 3)
    add(dict(E, vars=True), Q1, 3)
    add(dict(E, vars=True), ('bin', ('q', 1, 'L'), 'L'), 3)
    add(dict(E, truthtable=True, vars=True, export_ordering=True), B2, 2)
    # the same ordering file through every input channel
    for chan in (dict(E), dict(input='f.txt', channel='file:f.txt'), dict(channel='stdin')):
        files = {'o.txt': 'b a'}
        if chan.get('input'):
            files['f.txt'] = ''
        add(dict(chan, truthtable=True, ordering='o.txt', files=files, names=['a', 'b']), B2, 2)
    if not quick:
        for sh in [('ite', 'L', 'L', 'L'), ('bin', 'L', ('bin', 'L', 'L')), ('cc', ('L', 'L', 'L')), ('fp', ('bin', 'L', 'L')), ('q', 2, ('bin', 'L', 'L'))]:
            add(dict(E, truthtable=True, filter='symbolic'), sh, 3, timeout=1500)
            add(dict(E, truthtable=True, filter='symbolic', benchmark=2), sh, 3, timeout=1500)
        add(dict(E, truthtable=True, model=True, benchmark=3), Q1, 3)
        add(dict(E, vars=True, benchmark=2), Q1, 3)
        add(dict(channel='stdin', truthtable=True, vars=True, model=True), B2, 3)
    js.append(('selftest:main passes --retain-choices where the filter belongs', unit_main,
               (dict(E, truthtable=True, filter='symbolic'), B2, 2, dict(mutate=('main', '= copy (_8.6: rsbdd::TruthTableEntry);', '= copy (_8.7: rsbdd::TruthTableEntry);')))))
    return js


ORDERINGS = [('a b c', 'abc'), ('c b a\n', 'abc'), ('c, a\nb', 'abc'), ('b\na\n', 'abc'), ('a x c y b', 'abc'), ('b b a', 'abc'), ('b; a', 'ab'), ('b', 'ab'),
             ('x\ny\n', 'a'), ('', 'a')]
ORDERINGS_MORE = [('b a c', 'abc'), ('a c b', 'abc'), ('c a b', 'abc'), ('x a\ny b\nz c', 'abc'), ('c\n\n\nb, b, a', 'abc'), ("a' a", ["a", "a'"]), ('_b a', ['a', '_b']),
                  ('b c', 'abc'), ('c\nb\n', 'abc')]


def jobs_ordering(quick):
    """C11: -o <file> (concrete file texts) and -r"""
    js = []
    for text, nm in ORDERINGS + ([] if quick else ORDERINGS_MORE):
        names = list(nm)
        cfg = dict(E, truthtable=True, export_ordering=True, ordering='o.txt', files={'o.txt': text}, names=names)
        js.append(('main [%s] sketch %r over %s' % (cfg_text(cfg), B2, names), unit_main, (cfg, B2, len(names), {})))
    # sketches whose variable occurrences are concrete (only the operators are unknown): supersets with several unused
    # names in a row, in front of / between the used ones
    VCS = [(('bin', ('VC', 0), ('VC', 1)), ['a', 'b']), (('bin', ('VC', 1), ('bin', ('VC', 0), ('VC', 1))), ['a', 'b']), (('ite', ('VC', 2), ('VC', 0), ('VC', 1)), ['a', 'b', 'c'])]
    for text in (['x y b a', 'b x y z a', 'x y z a b c', 'a b'] if quick else ['x y b a', 'b x y z a', 'x y z a b c', 'a b', 'x b y z w a', 'c x y a\nz b', 'x y']):
        for sh, names in VCS[:2 if quick else 3]:
            cfg = dict(E, truthtable=True, export_ordering=True, ordering='o.txt', files={'o.txt': text}, names=names)
            if len([n for n in names if n not in reference_identifiers(text)]) > 1:
                continue
            js.append(('main [%s] sketch %r over %s' % (cfg_text(cfg), sh, names), unit_main, (cfg, sh, len(names), {})))
    cfg = dict(E, truthtable=True, ordering='o.txt', files={'o.txt': 'c b a'}, names=['a', 'b', 'c'], filter='symbolic')
    js.append(('main [%s] sketch %r' % (cfg_text(cfg), Q1), unit_main, (cfg, Q1, 3, {})))
    cfg = dict(E, truthtable=True, export_ordering=True)
    js.append(('main [%s] sketch %r k=3' % (cfg_text(cfg), Q1), unit_main, (cfg, Q1, 3, {})))
    if not quick:
        for text in ('c b a', 'b x a\nc'):
            for sh in [('ite', 'L', 'L', 'L'), ('cc', ('L', 'L', 'L')), ('q', 2, ('bin', 'L', 'L')), ('fp', ('bin', 'L', 'L'))]:
                cfg = dict(E, truthtable=True, export_ordering=True, ordering='o.txt', files={'o.txt': text}, names=['a', 'b', 'c'])
                js.append(('main [%s] sketch %r' % (cfg_text(cfg), sh), unit_main, (cfg, sh, 3, dict(timeout=1500))))
    js.append(('selftest:ordering vector dropped on the way to the parser', unit_main,
               (dict(E, truthtable=True, ordering='o.txt', files={'o.txt': 'b a'}, names=['a', 'b']), B2, 2,
                dict(mutate=('main', 'Option::<Vec<NamedSymbol>>::Some(copy _62)', 'Option::<Vec<NamedSymbol>>::None')))))
    return js


def jobs_retain(quick):
    """C20 through the command line: -c <any> -t"""
    js = []
    for sh, k in [(B2, 3), (Q1, 3)] + ([] if quick else [(('ite', 'L', 'L', 'L'), 3), (('bin', 'L', ('bin', 'L', 'L')), 3), (('cc', ('L', 'L', 'L')), 3)]):
        cfg = dict(E, truthtable=True, retain='symbolic')
        js.append(('main [%s] sketch %r k=%d' % (cfg_text(cfg), sh, k), unit_main, (cfg, sh, k, dict(timeout=250 if quick else 1500))))
    return js


def jobs_nopanic(quick):
    """C12: option combinations (each unit carries 'main does not panic' next to the output obligations)"""
    js = []
    combos = [dict(truthtable=True, vars=True, model=True, export_ordering=True, benchmark=2),
              dict(truthtable=True, vars=True, retain='symbolic', benchmark=1),
              dict(truthtable=True, filter='symbolic', model=True),
              dict(vars=True, model=True),
              dict(export_ordering=True),
              dict()]
    for c in combos:
        for sh, k in [(B2, 3)] + ([] if quick else [(Q1, 3), (('fp', ('bin', 'L', 'L')), 3), (('cc', ('L', 'L')), 3)]):
            cfg = dict(E, **c)
            js.append(('main [%s] sketch %r k=%d' % (cfg_text(cfg), sh, k), unit_main, (cfg, sh, k, dict(timeout=250 if quick else 1500))))
    for what in ('formula', 'parse', 'ordering'):
        cfg = dict(E, truthtable=True, vars=True, export_ordering=True, fails=what)
        if what == 'ordering':
            cfg.update(ordering='o.txt', files={'o.txt': 'a $ b'}, names=['a', 'b'])
        js.append(('main [%s] with a failing %s' % (cfg_text(cfg), what), unit_main, (cfg, B2, 2, {})))
    for text, nm in [('b a', 'ab'), ('', 'a'), ('a a a', 'ab'), ('x a y b z', 'ab'), ('x y', 'a')]:
        cfg = dict(E, truthtable=True, vars=True, export_ordering=True, ordering='o.txt', files={'o.txt': text}, names=list(nm))
        js.append(('main [%s] sketch %r over %s' % (cfg_text(cfg), B2, list(nm)), unit_main, (cfg, B2, len(nm), {})))
    return js


def jobs_dot(quick):
    """C14 through the command line: -d / -p hand the right graph to the renderer"""
    js = []
    for c, sh, k in [(dict(dot='d.dot', filter='symbolic'), B2, 3), (dict(parsetree='p.dot'), Q1, 3), (dict(dot='d.dot', parsetree='p.dot', truthtable=True, model=True), B2, 2),
                     (dict(dot='d.dot', retain='symbolic'), B2, 2)]:
        cfg = dict(E, **c)
        js.append(('main [%s] sketch %r k=%d' % (cfg_text(cfg), sh, k), unit_main, (cfg, sh, k, {})))
    return js
