"""Concrete reference front end of the rsbdd formula language for the generator checks (C15..C18): lexer and parser
written from the README, and a semantics that maps a formula to a z3 Boolean term over named variables
(quantifiers by expansion, counting by integer sums)."""
import re
import z3

TOKEN_RE = re.compile(r'''(?P<symbol>!|&|=>|-|<=>|<=|\||\^|\#|\*|\+|>=|=|>|<|\[|\]|,|\(|\))|(?P<countable>\d+)|\{(?P<reference>[\w']+)\}|(?P<identifier>[\w']+)|(?P<comment>"[^"]*")''')
SYM = {'&': 'and', '*': 'and', '|': 'or', '+': 'or', '^': 'xor', '-': 'not', '!': 'not', '=>': 'implies', '<=': 'le', '<=>': 'iff', '#': '#', '=': 'eq', '<': 'lt', '>': 'gt',
       '>=': 'ge', '(': '(', ')': ')', '[': '[', ']': ']', ',': ','}
KW = {'false': 'false', 'true': 'true', 'not': 'not', 'and': 'and', 'or': 'or', 'xor': 'xor', 'nor': 'nor', 'nand': 'nand', 'implies': 'implies', 'in': 'implies', 'iff': 'iff',
      'eq': 'iff', 'exists': 'exists', 'any': 'exists', 'forall': 'forall', 'all': 'forall', 'if': 'if', 'then': 'then', 'else': 'else', 'gfp': 'gfp', 'nu': 'gfp', 'lfp': 'lfp',
      'mu': 'lfp'}


class ParseError(Exception):
    pass


def lex(text):
    toks = []
    for m in TOKEN_RE.finditer(text):
        if m.group('symbol') is not None:
            toks.append((SYM[m.group('symbol')], None))
        elif m.group('countable') is not None:
            toks.append(('num', int(m.group('countable'))))
        elif m.group('reference') is not None:
            toks.append(('ref', m.group('reference')))
        elif m.group('identifier') is not None:
            w = m.group('identifier')
            toks.append((KW[w], None) if w in KW else ('var', w))
    toks.append(('eof', None))
    return toks


BINOPS = {'and', 'or', 'xor', 'nor', 'nand', 'implies', 'le', 'iff'}
CMPS = {'eq': '=', 'le': '<=', 'ge': '>=', 'lt': '<', 'gt': '>'}


class Parser:
    def __init__(self, toks):
        self.t = toks
        self.p = 0

    def peek(self):
        return self.t[self.p][0]

    def next(self):
        x = self.t[self.p]
        self.p += 1
        return x

    def expect(self, k):
        if self.peek() != k:
            raise ParseError('expected %s, got %s at token %d' % (k, self.peek(), self.p))
        return self.next()

    def formula(self):
        f = self.sub()
        self.expect('eof')
        return f

    def sub(self):
        left = self.simple()
        if self.peek() in BINOPS:
            op = self.next()[0]
            return (op, left, self.sub())
        return left

    def simple(self):
        k = self.peek()
        if k == '(':
            self.next()
            f = self.sub()
            self.expect(')')
            return f
        if k == '[':
            return self.count()
        if k in ('true', 'false'):
            self.next()
            return (k,)
        if k == 'var':
            return ('var', self.next()[1])
        if k == 'ref':
            return ('ref', self.next()[1])
        if k == 'not':
            self.next()
            return ('not', self.simple())
        if k in ('exists', 'forall'):
            self.next()
            vs = []
            while self.peek() != '#':
                vs.append(self.expect('var')[1])
                if self.peek() == ',':
                    self.next()
                else:
                    break
            self.expect('#')
            return (k, vs, self.sub())
        if k in ('lfp', 'gfp'):
            self.next()
            v = self.expect('var')[1]
            self.expect('#')
            return (k, v, self.sub())
        if k == 'if':
            self.next()
            c = self.sub()
            self.expect('then')
            a = self.sub()
            self.expect('else')
            b = self.sub()
            return ('ite', c, a, b)
        raise ParseError('unexpected %s at token %d' % (k, self.p))

    def flist(self):
        self.expect('[')
        xs = []
        while self.peek() != ']':
            xs.append(self.sub())
            if self.peek() == ',':
                self.next()
            else:
                break
        self.expect(']')
        return xs

    def count(self):
        left = self.flist()
        k = self.peek()
        if k not in CMPS:
            raise ParseError('expected counting operator, got %s' % k)
        self.next()
        if self.peek() == '[':
            return ('cv', CMPS[k], left, self.flist())
        return ('cc', CMPS[k], left, self.expect('num')[1])


def parse(text):
    return Parser(lex(text)).formula()


def variables(t, acc=None):
    acc = [] if acc is None else acc
    k = t[0]
    if k == 'var':
        if t[1] not in acc:
            acc.append(t[1])
    elif k in ('exists', 'forall'):
        for v in t[1]:
            if v not in acc:
                acc.append(v)
        variables(t[2], acc)
    elif k in ('lfp', 'gfp'):
        if t[1] not in acc:
            acc.append(t[1])
        variables(t[2], acc)
    elif k in ('cc',):
        for x in t[2]:
            variables(x, acc)
    elif k == 'cv':
        for x in t[2] + t[3]:
            variables(x, acc)
    else:
        for x in t[1:]:
            if isinstance(x, tuple):
                variables(x, acc)
    return acc


def free_variables(t, bound=()):
    k = t[0]
    if k == 'var':
        return [] if t[1] in bound else [t[1]]
    out = []
    if k in ('exists', 'forall'):
        subs = [(t[2], tuple(bound) + tuple(t[1]))]
    elif k in ('lfp', 'gfp'):
        subs = [(t[2], tuple(bound) + (t[1],))]
    elif k == 'cc':
        subs = [(x, bound) for x in t[2]]
    elif k == 'cv':
        subs = [(x, bound) for x in t[2] + t[3]]
    else:
        subs = [(x, bound) for x in t[1:] if isinstance(x, tuple)]
    for x, b in subs:
        for v in free_variables(x, b):
            if v not in out:
                out.append(v)
    return out


def to_z3(t, env):
    """env: name -> z3 Bool / python bool"""
    k = t[0]
    if k == 'true':
        return z3.BoolVal(True)
    if k == 'false':
        return z3.BoolVal(False)
    if k == 'var':
        if t[1] not in env:
            env[t[1]] = z3.Bool('x_' + t[1])
        v = env[t[1]]
        return z3.BoolVal(v) if isinstance(v, bool) else v
    if k == 'not':
        return z3.Not(to_z3(t[1], env))
    if k in BINOPS:
        a, b = to_z3(t[1], env), to_z3(t[2], env)
        return {'and': z3.And(a, b), 'or': z3.Or(a, b), 'xor': z3.Xor(a, b), 'nor': z3.Not(z3.Or(a, b)), 'nand': z3.Not(z3.And(a, b)), 'implies': z3.Implies(a, b),
                'le': z3.Implies(b, a), 'iff': a == b}[k]
    if k == 'ite':
        return z3.If(to_z3(t[1], env), to_z3(t[2], env), to_z3(t[3], env))
    if k in ('exists', 'forall'):
        vs = list(dict.fromkeys(t[1]))
        parts = []
        for j in range(1 << len(vs)):
            e2 = dict(env)
            for i, v in enumerate(vs):
                e2[v] = bool((j >> i) & 1)
            parts.append(to_z3(t[2], e2))
        return z3.Or(*parts) if k == 'exists' else z3.And(*parts)
    if k == 'cc':
        s = z3.Sum([z3.If(to_z3(x, env), 1, 0) for x in t[2]]) if t[2] else z3.IntVal(0)
        n = z3.IntVal(t[3])
        return {'=': s == n, '<=': s <= n, '>=': s >= n, '<': s < n, '>': s > n}[t[1]]
    if k == 'cv':
        a = z3.Sum([z3.If(to_z3(x, env), 1, 0) for x in t[2]]) if t[2] else z3.IntVal(0)
        b = z3.Sum([z3.If(to_z3(x, env), 1, 0) for x in t[3]]) if t[3] else z3.IntVal(0)
        return {'=': a == b, '<=': a <= b, '>=': a >= b, '<': a < b, '>': a > b}[t[1]]
    raise ParseError('no semantics for ' + k)


def evaluate(t, env):
    """concrete value of a formula under a total assignment (dict name -> bool; missing names are False)"""
    k = t[0]
    if k == 'true':
        return True
    if k == 'false':
        return False
    if k == 'var':
        return bool(env.get(t[1], False))
    if k == 'not':
        return not evaluate(t[1], env)
    if k in BINOPS:
        a, b = evaluate(t[1], env), evaluate(t[2], env)
        return {'and': a and b, 'or': a or b, 'xor': a != b, 'nor': not (a or b), 'nand': not (a and b), 'implies': (not a) or b, 'le': (not b) or a, 'iff': a == b}[k]
    if k == 'ite':
        return evaluate(t[2], env) if evaluate(t[1], env) else evaluate(t[3], env)
    if k in ('exists', 'forall'):
        vs = list(dict.fromkeys(t[1]))
        res = []
        for j in range(1 << len(vs)):
            e2 = dict(env)
            for i, v in enumerate(vs):
                e2[v] = bool((j >> i) & 1)
            res.append(evaluate(t[2], e2))
        return any(res) if k == 'exists' else all(res)
    if k == 'cc':
        s = sum(1 for x in t[2] if evaluate(x, env))
        n = t[3]
        return {'=': s == n, '<=': s <= n, '>=': s >= n, '<': s < n, '>': s > n}[t[1]]
    if k == 'cv':
        a = sum(1 for x in t[2] if evaluate(x, env))
        b = sum(1 for x in t[3] if evaluate(x, env))
        return {'=': a == b, '<=': a <= b, '>=': a >= b, '<': a < b, '>': a > b}[t[1]]
    raise ParseError('no evaluation for ' + k)
