#!/usr/bin/env python3
"""Print the prompt given to a seeding sub-agent for one property (property text only; nothing from /verif's machinery)."""
import json, sys
pid = sys.argv[1]
wt = sys.argv[2]
for l in open('/verif/properties.jsonl'):
    p = json.loads(l)
    if p['id'] == pid:
        break
else:
    raise SystemExit('no such property')
print(f"""You are helping to evaluate a verification framework for the Rust project timbeurskens/rsbdd (a small ROBDD library with a boolean-formula language, a CLI solver `rsbdd`, and puzzle-to-formula generator binaries). You have your own scratch git worktree of the repository at {wt} (a detached checkout; work ONLY inside that directory; never touch /repo or /verif; do not read /verif). The sandbox has no network; use `cargo ... --offline` (set CARGO_NET_OFFLINE=true). Use a target dir inside your worktree (the default `{wt}/target`).

Here is one semantic property of the project that should always hold:

  Title: {p['title']}
  Statement: {p['statement']}
  Quantified over: {p['quantifier']['text']}

Your task: produce TWO independent, realistic source changes (bugs) to the project (each as a separate patch against the pristine checkout) that each BREAK this property, while
  (a) the whole workspace still compiles (`cargo build --workspace --offline`), and
  (b) the existing test suite still passes unchanged: `cargo test --workspace --no-fail-fast --offline` (31 tests pass on the pristine tree; do not edit, delete or add to the existing tests as part of the patch), and
  (c) the bug is subtle: it needs something specific to manifest — an unusual input (boundary value, particular operand shape, non-adjacent variable indices, a repeated/aliased argument, a particular ordering), a multi-step sequence of operations, or two cooperating sites that each look fine alone. It must NOT be something ordinary use would expose at once (e.g. do not break `a & b` for all inputs). Think of a plausible refactoring slip, wrong boundary, swapped operands in one rarely-taken branch, an "optimisation" with a wrong side condition, etc. The two changes should use different mechanisms / touch different code sites.

For each change also write a demonstration: a Rust integration test file (placed under `tests/` of the relevant crate only while you run it — it is NOT part of the patch) or a small shell script driving the built binaries, which FAILS with the change applied and PASSES on the pristine tree. Verify both directions yourself.

Deliverables — create the directory {wt}/_seed_out/ containing, for N in 1,2:
  - patchN.diff : output of `git diff` for change N only (source files of the project only, applies to the pristine checkout with `git apply`),
  - demoN.rs or demoN.sh : the demonstration,
  - notesN.md : which code site(s) changed, what specific condition is needed for the bug to manifest, the exact commands you ran, and their observed results (with/without the patch; test-suite result with the patch).
Leave the worktree's tracked files in the pristine state when you finish (git checkout -- . ; remove any test files you added), and delete the `target` directory inside the worktree at the end to save disk space. Keep your final reply short: list the files you produced and one line per change describing it. If you cannot find a second change that satisfies all constraints, deliver one and say so.""")
