#!/usr/bin/env python3
"""Run every quick check against each behaviour-preserving change in seeded/benign/ (scratch worktree, never /repo) and
record the exit codes in seeded/benign/results.json: a check must not raise an alarm on code where the property holds."""
import json, os, subprocess, sys, glob, shutil

V = '/verif'
WT = '/tmp/benignrepo'
env = dict(os.environ, VERIF_REPO=WT, VERIF_CACHE=os.path.join(V, '.cache-seeds'), VERIF_EVIDENCE=os.path.join(V, '.cache-seeds', 'evidence'),
           VERIF_REPLAYS=os.path.join(V, '.cache-seeds', 'replays'), CARGO_NET_OFFLINE='true')


def sh(cmd):
    return subprocess.run(cmd, shell=True, capture_output=True, text=True)


def main():
    only = sys.argv[1:]
    patches = sorted(glob.glob(V + '/seeded/benign/patch*.diff'))
    resf = V + '/seeded/benign/results.json'
    results = json.load(open(resf)) if os.path.exists(resf) else {}
    ids = ['C%02d' % i for i in range(1, 21)]
    sh('git -C /repo worktree remove --force %s' % WT)
    shutil.rmtree(WT, ignore_errors=True)
    assert sh('git -C /repo worktree add --detach %s HEAD' % WT).returncode == 0
    try:
        for p in patches:
            name = os.path.basename(p)
            if only and name not in only:
                continue
            sh('git -C %s checkout -- . && git -C %s clean -fdq' % (WT, WT))
            a = sh('git -C %s apply %s' % (WT, p))
            if a.returncode != 0:
                results[name] = {'_apply': a.stderr[:200]}
                continue
            res = results.setdefault(name, {})
            for pid in ids:
                r = subprocess.run(['./check', pid], cwd=V, env=env, capture_output=True, text=True)
                lines = [l for l in r.stdout.split('\n') if l.startswith(('VIOLATION', 'CONFIRMED', 'INCONCLUSIVE'))]
                res[pid] = {'exit': r.returncode, 'lines': [l[:200] for l in lines[:3]]}
                print(name, pid, '-> exit', r.returncode, (lines[0][:140] if lines else ''))
                sys.stdout.flush()
                json.dump(results, open(resf, 'w'), indent=1)
    finally:
        sh('git -C /repo worktree remove --force %s' % WT)
        shutil.rmtree(WT, ignore_errors=True)


if __name__ == '__main__':
    main()
