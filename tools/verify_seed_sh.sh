#!/bin/bash
# like verify_seed.sh, for shell demonstrations that take the path of a built binary (or of target/debug) as $1
# usage: tools/verify_seed_sh.sh <seedout dir> <N> <tag> <path below the worktree to pass, e.g. target/debug/rsbdd>
D="$1"; N="$2"; TAG="$3"; ARG="$4"
WT=/tmp/sv/$TAG
export CARGO_NET_OFFLINE=true
mkdir -p /tmp/sv
git -C /repo worktree add --detach "$WT" HEAD >/dev/null 2>&1 || { echo "{\"tag\":\"$TAG\",\"error\":\"worktree\"}"; exit 1; }
cd "$WT"
res_apply=fail
if git apply "$D/patch$N.diff" 2>/dev/null; then res_apply=ok; fi
out=$(cargo test --workspace --no-fail-fast --offline 2>&1)
passed=$(echo "$out" | grep -E "^test result" | sed -E 's/.* ([0-9]+) passed.*/\1/' | paste -sd+ | bc)
failed=$(echo "$out" | grep -E "^test result" | sed -E 's/.* ([0-9]+) failed.*/\1/' | paste -sd+ | bc)
cargo build --workspace --offline >/dev/null 2>&1
if bash "$D/demo$N.sh" "$WT/$ARG" >/tmp/sv/$TAG.with.log 2>&1; then demo_with=pass; else demo_with=fail; fi
git checkout -- . 2>/dev/null
cargo build --workspace --offline >/dev/null 2>&1
if bash "$D/demo$N.sh" "$WT/$ARG" >/tmp/sv/$TAG.without.log 2>&1; then demo_without=pass; else demo_without=fail; fi
cd /
git -C /repo worktree remove --force "$WT" >/dev/null 2>&1
rm -rf "$WT"
echo "{\"tag\":\"$TAG\",\"apply\":\"$res_apply\",\"suite_with_patch\":\"passed=$passed failed=$failed\",\"demo_with_patch\":\"$demo_with\",\"demo_without_patch\":\"$demo_without\",\"note\":\"shell demonstration run with <worktree>/$ARG as its argument\"}"
