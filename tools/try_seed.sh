#!/bin/bash
# usage: tools/try_seed.sh <patch.diff> <ID> [<ID>...]   -- applies the patch to /repo, runs the checks, reverts
P="$1"; shift
cd /repo && git apply "$P" || { echo "patch does not apply"; exit 3; }
cd /verif
for id in "$@"; do
  ./check $id > /tmp/w/try_$id.log 2>&1; rc=$?
  echo "== $(basename $(dirname $P))/$(basename $P) $id -> exit $rc"
  grep -E "^VIOLATION|^KNOWN|^INCONCLUSIVE|^CONFIRMED|^NOT-REPRO" /tmp/w/try_$id.log | cut -c1-260 | head -6
done
git -C /repo checkout -- . ; git -C /repo status --short
