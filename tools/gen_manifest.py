#!/usr/bin/env python3
"""Generate /verif/MANIFEST.json from the table below (kept in one place so it stays current)."""
import json
import os

V = os.path.dirname(os.path.dirname(os.path.abspath(__file__)))

MIRSYM_NOTE = ('Trusted base: the MIRSYM interpreter (/verif/mirsym) and its library models (listed per run in evidence: Rc/Box/& value '
               'semantics, RefCell borrow counter, Vec/slice/iterator adaptors over concrete-length sequences, Option/Result, fmt/panic plumbing), '
               'the abstract unique table (representation invariant; establishment/preservation discharged by C13), rustc nightly MIR as the '
               'semantics of the source, kissat / z3 verdicts.  Guards: translator validation against the real compiled crate on every run, '
               'a mutated-MIR self-test per check, replay of every counterexample on dev and release builds before it is reported.')

TV_NOTE = "Trusted base: the reference front end checks/genlang.py (lexer, parser, semantics of the formula language written from the README), the independently written specification per generator, z3's verdict. The generator binary is built from the current tree and runs concretely per configuration; every disagreement is re-checked by direct evaluation and, where the instance is small enough, with the real rsbdd evaluator."

CLAIMED = {
    'C01': dict(text='Bounded model checking of the real MIR of ParsedFormula::eval / eval_recursive / replace_var / BDDEnv::fp on syntax-tree sketches (concrete shape up to 2-3 internal nodes; every operator, quantifier kind, counting kind, 64-bit constant, fixed-point start and variable id symbolic over 3 atoms, so bound/free reuse and shadowing are included) against an independent reference semantics of the language; BDDEnv callees replaced by contracts that lemma units of the same run discharge on the real MIR of src/bdd.rs; both overflow profiles.',
                design='DESIGN.md 4/C01'),
    'C06': dict(text='Bounded model checking of BDDEnv::fp with a symbolic total transformer (all functions on 1..2 variables, 8 / 64 unknown table bits) and of lfp/gfp formulas: fixed-point sketches (bodies up to 3 internal nodes, all labels symbolic, shadowing by inner binders included) through the real MIR against the reference iteration semantics, termination within the unrolling bound, plus extremality (below/above every fixed point P, P an unknown table) of the reference result for syntactically monotone bodies.',
                design='DESIGN.md 4/C06'),
    'C08': dict(text='Bounded model checking of the real MIR of the recursive-descent parser on token arrays of length 0..6 (8 thorough) whose kinds are unknowns over the full 31-kind alphabet, against an independent reference parser of the documented grammar run on the same symbolic array (both reject, or both accept with structurally equal trees); plus the tokenizer\'s text-to-token table executed from MIR under a contract model of the regex engine, and the TOKENIZER pattern itself (read from src/parser.rs) executed symbolically under leftmost-first semantics on every text of <= 8 (12 thorough) unknown characters over 27 character classes against the documented lexical grammar (alternation order, greedy matching, comments and separators). The regex crate\'s implementation is outside the claim.',
                design='DESIGN.md 4/C08'),
    'C10': dict(text='Bounded model checking of the real MIR of print_truth_table_recursive (rsbdd binary) on the canonical diagram of an unknown truth table over 1..3 free variables, unknown filter, ParsedFormula from the real constructor, symbolic ids: for a symbolic total assignment exactly one recorded row covers it when the filter admits its value and none otherwise, with the right result; -m composition (model then print); TruthTableEntry::from_str on an unknown string. Whole-main units: the real MIR of main under concrete command lines ({-e, file, stdin} x {-t, -v, -m, -r} x -f unknown x -b 1..3) with the formula a symbolic sketch (clap, file system, tokenizer, parser replaced by their contracts; printing primitives by recorders): header, partition, -r, and the table invariant on entry of every evaluation. Text layout and clap parsing itself are outside the claim.',
                design='DESIGN.md 4/C10'),
    'C11': dict(text='Bounded model checking of id assignment under an ordering vector (real tokenizer MIR under the regex contract, unknown names and ids), of to_free_index for arbitrary non-contiguous ids, of the constructor\'s ordering of vars/free_vars, and of the evaluator for all id assignments at once (symbolic ordered atoms). Whole-main units: main under -o <file> -t -r for a family of concrete ordering-file texts with the formula a symbolic sketch over the file\'s names: ordering vector = file order, header / rows / -r by name against the reference semantics.',
                design='DESIGN.md 4/C11'),
    'C12': dict(text='Bounded model checking of panic freedom: the panic condition collected by the executor (explicit panics, index bounds, arithmetic overflow in both profiles, expect/unwrap, RefCell borrows, loop bound) is unsatisfiable for tokenize (regex contract, numbers up to 24 digits), parse_formula on all token sequences up to the bound, the constructor, var_is_free and eval on sketches, printing with non-contiguous ids, the Graphviz descriptions, and the whole main of the binary under combinations of -t -v -m -r -c -b -o.',
                design='DESIGN.md 4/C12'),
    'C09': dict(text='Bounded model checking of var_is_free, of the constructor (new_with_env / extract_vars / sort closure / raw2free loop; tokenizer and parser stubbed to return the sketch) and of the support of the evaluated diagram on syntax-tree sketches with all labels symbolic over 3 atoms: exact free-variable sets in variable order, every id once in vars, consistent raw2free, answers depend only on free variables.',
                design='DESIGN.md 4/C09'),
    'C13': dict(text='Bounded model checking of history independence and sharing: two-operation histories in one environment with the state threaded through the real code (k=2), every table lookup free to hit or miss in all other checks, the table invariant established by new() and preserved by every insert, and per-allocation ownership tracking showing every returned node and descendant is the table\'s node.',
                design='DESIGN.md 4/C13'),
    'C02': dict(text='Bounded model checking of the real MIR of every BDDEnv operation on arbitrary canonical operands (symbolic truth tables over k symbolic ordered ids): '
                     'the result is structurally the canonical diagram of the specified function (ordered, reduced), so equal functions are represented identically; '
                     'one inductive step per operation covers construction routes of any length; bound is on k and list lengths.',
                design='DESIGN.md 4/C02'),
    'C03': dict(text='Bounded model checking of the real MIR of and/or/not/implies/eq/xor/nor/nand/ite/var/mk_const: for all operand functions of k variables in all '
                     'argument positions (and aliased), the result evaluates pointwise to the connective; no panic; full recursion k<=3 (4 thorough) plus induction steps k=5 (6).',
                design='DESIGN.md 4/C03'),
    'C04': dict(text='Bounded model checking of exists_impl/exists/all on arbitrary functions and arbitrary variable lists (each element any atom: repeated, any order, inside or outside the support).',
                design='DESIGN.md 4/C04'),
    'C05': dict(text='Bounded model checking of aln/amn/exn/cmp_count and count_leq/lt/geq/gt/eq on lists of arbitrary functions (repeats allowed) with an unconstrained i64 bound under the documented no-overflow precondition.',
                design='DESIGN.md 4/C05'),
    'C07': dict(text='Bounded model checking of model and infer: false leaf iff unsatisfiable, single cube, implies f, mentions only support variables; infer (true,true) iff forced.',
                design='DESIGN.md 4/C07'),
    'C14': dict(text='Bounded model checking of the crate\'s Graphviz descriptions with dot::render replaced by its contract (node statements from nodes()/node_id/node_label, edge statements from edges()/source/target/edge_label): the real MIR of BDDGraph (src/bdd_io.rs) on the canonical diagram of every function of 1..2 variables with an unknown filter - ids distinct, edges between declared nodes, read back from the root along T/F edges the description evaluates to the function, only the leaf opposite to the filter is missing - and of SymbolicParseTree (src/parser_io.rs) on formula sketches - shared identical sub-terms, one root, labels / edge labels / out-degrees read back as a term give the parsed tree; main hands the evaluated diagram with the filter (-d) and the parsed tree (-p) to the renderer. Rendered addresses are identified with node structure (sharing: C13). The DOT text itself is checked on replayed cases only.',
                design='DESIGN.md 4/C14'),
    'C15': dict(text='Translation validation of n_queens_gen: for every board size in the bound the real binary\'s output is parsed by an independent front end (and the real parser) and the solver decides that the emitted formula and the n-queens specification agree on ALL 2^(n*n) assignments (n <= 10, 11 thorough, as one query; n = 9, 11, 12 and up to 20 thorough through row / column / diagonal lemmas, each a solver query, because the monolithic query is a pigeonhole problem); for n <= 4 the real evaluator\'s truth table is also compared.', design='DESIGN.md 4/C15', category='translation_validation', engine='gencheck', note=TV_NOTE, technique='translation validation: real generator output vs independent specification, equivalence over all assignments decided by z3'),
    'C16': dict(text='Translation validation of max_clique_gen over all simple graphs on <= 3 vertices (one-directional and symmetric), duplicates, self loops, seeded multigraphs, helper-name collisions, x {-u} x {-a}: emitted formula == maximum-clique (all-clique) specification on every vertex subset.', design='DESIGN.md 4/C16', category='translation_validation', engine='gencheck', note=TV_NOTE, technique='translation validation: real generator output vs independent specification, equivalence over all assignments decided by z3'),
    'C17': dict(text='Translation validation of sudoku_gen for r = 1, 2 over a family of puzzle texts (empty, full, short, over-long, contradictory, ASCII and non-ASCII blanks and whitespace) and r = 3 for seeded puzzles: emitted formula == sudoku specification on all assignments (64 / 729 variables).', design='DESIGN.md 4/C17', category='translation_validation', engine='gencheck', note=TV_NOTE, technique='translation validation: real generator output vs independent specification, equivalence over all assignments decided by z3'),
    'C18': dict(text='Bounded model checking of generate_graph from the random_graph_gen binary\'s MIR (V = 0..3 concrete, E an unknown usize, -u unknown, thread_rng opaque, shuffle an arbitrary permutation given by an unknown one-hot matrix): refused exactly when infeasible, otherwise exactly E distinct edges between distinct vertices with no pair in both orientations under -u, for every permutation; requests, --complete, --convert and --colors are validated through the real binary (for --colors the solver decides both the covering-clique and the k-colourability side).', design='DESIGN.md 4/C18'),
    'C19': dict(text='Bounded model checking of every BDDSet operation (insert, union, intersect, complement, empty, universe, contains) as one inductive step from an arbitrary state: two sets over 2..3 bits with unknown truth tables sharing an environment, distinct or the same object, element an unconstrained usize; post-state equals the reference set operation for every element, the other set is unchanged, queries do not modify, no panic (RefCell borrow counter modelled).',
                design='DESIGN.md 4/C19'),
    'C20': dict(text='Bounded model checking of retain_choice_bottom_up for every function of k variables and a symbolic filter: direction of implication, identity for Any, ordered/reduced, support; and through the real main under -c <unknown> -t with formula sketches.',
                design='DESIGN.md 4/C20'),
}

NOT_APPLICABLE = {
}

PENDING = 'not yet built in this round: the check for this property is still under construction (see DESIGN.md 4 for the plan); it is not claimed until it exists'


def main():
    props = [json.loads(l) for l in open(os.path.join(V, 'properties.jsonl'))]
    checks = []
    na = []
    for p in props:
        pid = p['id']
        if pid in CLAIMED and os.path.exists(os.path.join(V, 'checks', pid.lower() + '.py')):
            c = CLAIMED[pid]
            checks.append({
                'property_id': pid,
                'quick_cmd': './check %s --tier quick' % pid,
                'thorough_cmd': './check %s --tier thorough' % pid,
                'evidence_file': 'evidence/%s.json' % pid,
                'replay_cmd_template': './check %s --replay {path}' % pid,
                'engine': c.get('engine', 'mirsym'),
                'level_claimed': {'category': c.get('category', 'model_checking'), 'text': c['text'], 'design_ref': c['design']},
                'level_note': c.get('note', MIRSYM_NOTE),
                'technique': c.get('technique', 'bounded symbolic execution of rustc MIR into SAT/SMT (own executor MIRSYM; kissat on own Tseitin CNF, z3 for bit-vector queries); counterexamples replayed on the real crate'),
            })
        else:
            na.append({'property_id': pid, 'reason': NOT_APPLICABLE.get(pid, PENDING)})
    man = {
        'version': 1,
        'setup_cmd': './setup.sh',
        'hooks': {
            'guard': 'rsbdd_verif (unused: no source hooks are needed; MIR exposes private items and the replay driver uses the public API)',
            'enable': 'none',
            'baseline_off_cmd': 'cd /repo && cargo test --workspace --no-fail-fast --offline',
            'source_commits': [],
            'add_only': True,
        },
        'engines': [
            {'name': 'mirsym', 'path': 'mirsym/', 'serves_properties': sorted(CLAIMED), 'kind_free_text': 'bounded symbolic executor for rustc MIR text (nightly -Zunpretty=mir of the current tree) producing z3 terms; SAT back end kissat via own Tseitin encoder, SMT back end z3'},
            {'name': 'gencheck', 'path': 'checks/gencore.py', 'serves_properties': ['C15', 'C16', 'C17', 'C18'], 'kind_free_text': 'translation validation of generator output: independent parser + semantics (checks/genlang.py), equivalence with a specification decided by z3 over all assignments'},
            {'name': 'replay', 'path': 'replay/', 'serves_properties': sorted(CLAIMED), 'kind_free_text': 'Rust driver linked against /repo (dev+release) used for counterexample replay and translator validation'},
        ],
        'checks': checks,
        'not_applicable': na,
        'notes': 'Exit codes of ./check: 0 held within the stated bounds, 1 replay-confirmed VIOLATION, 2 inconclusive (unsupported construct on a changed tree, solver unknown, non-reproducing model).',
    }
    with open(os.path.join(V, 'MANIFEST.json'), 'w') as f:
        json.dump(man, f, indent=1)
    print('checks:', [c['property_id'] for c in checks], 'not_applicable:', [n['property_id'] for n in na])


if __name__ == '__main__':
    main()
