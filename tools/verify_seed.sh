#!/bin/bash
# usage: tools/verify_seed.sh <seedout dir> <N> <tag>
# Confirms in a scratch worktree: patch applies, workspace builds, the 31 existing tests pass with the patch,
# the demonstration fails with the patch and passes without.  Prints a one-line JSON summary.
D="$1"; N="$2"; TAG="$3"
WT=/tmp/sv/$TAG
export CARGO_NET_OFFLINE=true
mkdir -p /tmp/sv
git -C /repo worktree add --detach "$WT" HEAD >/dev/null 2>&1 || { echo "{\"tag\":\"$TAG\",\"error\":\"worktree\"}"; exit 1; }
cd "$WT"
res_apply=fail; res_suite=fail; demo_with=?; demo_without=?
if git apply "$D/patch$N.diff" 2>/dev/null; then res_apply=ok; fi
if [ $res_apply = ok ]; then
  out=$(cargo test --workspace --no-fail-fast --offline 2>&1)
  passed=$(echo "$out" | grep -E "^test result" | sed -E 's/.* ([0-9]+) passed.*/\1/' | paste -sd+ | bc)
  failed=$(echo "$out" | grep -E "^test result" | sed -E 's/.* ([0-9]+) failed.*/\1/' | paste -sd+ | bc)
  res_suite="passed=$passed failed=$failed"
  if [ -f "$D/demo$N.rs" ]; then
    cp "$D/demo$N.rs" tests/zz_demo.rs
    if cargo test --offline --test zz_demo >/tmp/sv/$TAG.with.log 2>&1; then demo_with=pass; else demo_with=fail; fi
    git checkout -- . 2>/dev/null
    if cargo test --offline --test zz_demo >/tmp/sv/$TAG.without.log 2>&1; then demo_without=pass; else demo_without=fail; fi
    rm -f tests/zz_demo.rs
  elif [ -f "$D/demo$N.sh" ]; then
    cargo build --workspace --offline >/dev/null 2>&1
    if bash "$D/demo$N.sh" "$WT" >/tmp/sv/$TAG.with.log 2>&1; then demo_with=pass; else demo_with=fail; fi
    git checkout -- . 2>/dev/null
    cargo build --workspace --offline >/dev/null 2>&1
    if bash "$D/demo$N.sh" "$WT" >/tmp/sv/$TAG.without.log 2>&1; then demo_without=pass; else demo_without=fail; fi
  fi
fi
cd /
git -C /repo worktree remove --force "$WT" >/dev/null 2>&1
rm -rf "$WT"
echo "{\"tag\":\"$TAG\",\"apply\":\"$res_apply\",\"suite_with_patch\":\"$res_suite\",\"demo_with_patch\":\"$demo_with\",\"demo_without_patch\":\"$demo_without\"}"
