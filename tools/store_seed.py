#!/usr/bin/env python3
"""Store a verified seeded change under /verif/seeded/<tag>/ (patch.diff, demonstration, notes, meta.json)."""
import json, os, shutil, sys, re
src, n, tag = sys.argv[1], sys.argv[2], sys.argv[3]
ver = {}
for ln in open('/tmp/sv_results.txt'):
    try:
        d = json.loads(ln)
    except Exception:
        continue
    if d.get('tag') == tag:
        ver = d
dst = os.path.join('/verif/seeded', tag)
os.makedirs(dst, exist_ok=True)
shutil.copy(os.path.join(src, 'patch%s.diff' % n), os.path.join(dst, 'patch.diff'))
demo = None
for ext in ('rs', 'sh'):
    p = os.path.join(src, 'demo%s.%s' % (n, ext))
    if os.path.exists(p):
        demo = 'demo.' + ext
        shutil.copy(p, os.path.join(dst, demo))
notes = os.path.join(src, 'notes%s.md' % n)
txt = open(notes).read() if os.path.exists(notes) else ''
if txt:
    shutil.copy(notes, os.path.join(dst, 'notes.md'))
meta_p = os.path.join(dst, 'meta.json')
meta = json.load(open(meta_p)) if os.path.exists(meta_p) else {}
meta.update({
    'id': tag,
    'property': tag.split('-')[0],
    'source': 'independent sub-agent given only the property text and a scratch worktree',
    'files_changed': sorted(set(re.findall(r'^\+\+\+ b/(\S+)', open(os.path.join(dst, 'patch.diff')).read(), re.M))),
    'demonstration': demo,
    'needs_to_manifest': (re.search(r'(?is)(condition|manifest|trigger)[^\n]*\n+(.{0,600})', txt).group(2).strip() if re.search(r'(?is)(condition|manifest|trigger)[^\n]*\n+(.{0,600})', txt) else txt[:500]),
    'confirmed_by_me': {
        'how': 'tools/verify_seed.sh in a scratch worktree under /tmp/sv (removed afterwards): git apply, cargo test --workspace --no-fail-fast --offline with the patch, demonstration with and without the patch',
        'patch_applies': ver.get('apply'), 'existing_suite_with_patch': ver.get('suite_with_patch'),
        'demo_with_patch': ver.get('demo_with_patch'), 'demo_without_patch': ver.get('demo_without_patch'),
    },
})
meta.setdefault('checks', {})
json.dump(meta, open(meta_p, 'w'), indent=1)
print('stored', tag, meta['confirmed_by_me'])
