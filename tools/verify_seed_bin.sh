#!/bin/bash
# like verify_seed.sh but for demonstrations that drive built binaries:
# usage: tools/verify_seed_bin.sh <seedout dir> <N> <tag> <crate dir for the test ("." or sudoku_gen)> <cargo -p arg or "">
D="$1"; N="$2"; TAG="$3"; CR="$4"; PK="$5"
WT=/tmp/sv/$TAG
export CARGO_NET_OFFLINE=true
mkdir -p /tmp/sv
git -C /repo worktree add --detach "$WT" HEAD >/dev/null 2>&1 || { echo "{\"tag\":\"$TAG\",\"error\":\"worktree\"}"; exit 1; }
cd "$WT"
run_demo() {
  cargo build --workspace --offline >/dev/null 2>&1
  mkdir -p $CR/tests; cp "$D/demo$N.rs" $CR/tests/zz_demo.rs
  if cargo test --offline $PK --test zz_demo > "$1" 2>&1; then echo pass; else echo fail; fi
  rm -f $CR/tests/zz_demo.rs
}
res_apply=fail
if git apply "$D/patch$N.diff" 2>/dev/null; then res_apply=ok; fi
out=$(cargo test --workspace --no-fail-fast --offline 2>&1)
passed=$(echo "$out" | grep -E "^test result" | sed -E 's/.* ([0-9]+) passed.*/\1/' | paste -sd+ | bc)
failed=$(echo "$out" | grep -E "^test result" | sed -E 's/.* ([0-9]+) failed.*/\1/' | paste -sd+ | bc)
demo_with=$(run_demo /tmp/sv/$TAG.with.log)
git checkout -- . 2>/dev/null
demo_without=$(run_demo /tmp/sv/$TAG.without.log)
cd /
git -C /repo worktree remove --force "$WT" >/dev/null 2>&1
rm -rf "$WT"
echo "{\"tag\":\"$TAG\",\"apply\":\"$res_apply\",\"suite_with_patch\":\"passed=$passed failed=$failed\",\"demo_with_patch\":\"$demo_with\",\"demo_without_patch\":\"$demo_without\"}"
