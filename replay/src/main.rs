//! Replay / reference driver: runs the *real* compiled rsbdd crate on concrete cases produced by the solver
//! (counterexample replay) or drawn for translator validation.  Line protocol on stdin, one case per line,
//! one answer line per case on stdout.
use std::io::{self, BufRead, Write};
use std::panic;
use std::rc::Rc;

use rsbdd::bdd::{BDDEnv, BDD};
use rsbdd::parser::*;
use rsbdd::set::BDDSet;
use rsbdd::{NamedSymbol, TruthTableEntry};

type N = Rc<BDD<NamedSymbol>>;

fn sym(id: usize) -> NamedSymbol {
    NamedSymbol { name: Rc::new(format!("v{}", id)), id }
}

/// canonical diagram of truth table `tt` (variable 0 = most significant index bit) over `ids`, built with plain
/// constructors (independent of the library's operations)
fn canon(tt: &[bool], ids: &[usize]) -> N {
    if ids.is_empty() {
        return Rc::new(if tt[0] { BDD::True } else { BDD::False });
    }
    let half = tt.len() / 2;
    let lo = canon(&tt[..half], &ids[1..]);
    let hi = canon(&tt[half..], &ids[1..]);
    if lo == hi {
        lo
    } else {
        Rc::new(BDD::Choice(hi, sym(ids[0]), lo))
    }
}

/// re-create a raw diagram inside `env` (so that its nodes are table-owned) when the library's mk_choice agrees
fn intern(env: &BDDEnv<NamedSymbol>, n: &N) -> N {
    match n.as_ref() {
        BDD::True => env.mk_const(true),
        BDD::False => env.mk_const(false),
        BDD::Choice(t, s, f) => {
            let r = env.mk_choice(intern(env, t), s.clone(), intern(env, f));
            if &r == n {
                r
            } else {
                n.clone()
            }
        }
    }
}

fn eval(n: &N, ids: &[usize], asg: &[bool]) -> bool {
    match n.as_ref() {
        BDD::True => true,
        BDD::False => false,
        BDD::Choice(t, s, f) => {
            let v = ids.iter().position(|i| *i == s.id).map(|p| asg[p]).unwrap_or(false);
            if v {
                eval(t, ids, asg)
            } else {
                eval(f, ids, asg)
            }
        }
    }
}

fn tt_of(n: &N, ids: &[usize]) -> String {
    let k = ids.len();
    let mut s = String::new();
    for j in 0..(1usize << k) {
        let asg: Vec<bool> = (0..k).map(|i| (j >> (k - 1 - i)) & 1 == 1).collect();
        s.push(if eval(n, ids, &asg) { '1' } else { '0' });
    }
    s
}

fn ser(n: &N) -> String {
    match n.as_ref() {
        BDD::True => "T".to_string(),
        BDD::False => "F".to_string(),
        BDD::Choice(t, s, f) => format!("({} {} {})", s.id, ser(t), ser(f)),
    }
}

/// ordered (strictly increasing ids on every path), reduced (children differ), ids within `ids`
fn wf(n: &N, lower: Option<usize>, ids: &[usize]) -> bool {
    match n.as_ref() {
        BDD::True | BDD::False => true,
        BDD::Choice(t, s, f) => {
            lower.map_or(true, |l| l < s.id) && ids.contains(&s.id) && t != f && wf(t, Some(s.id), ids) && wf(f, Some(s.id), ids)
        }
    }
}

fn parse_tt(s: &str) -> Vec<bool> {
    s.chars().map(|c| c == '1').collect()
}

fn unhex(s: &str) -> Vec<u8> {
    (0..s.len() / 2).map(|i| u8::from_str_radix(&s[2 * i..2 * i + 2], 16).unwrap()).collect()
}

fn filter_of(s: &str) -> TruthTableEntry {
    match s {
        "True" => TruthTableEntry::True,
        "False" => TruthTableEntry::False,
        _ => TruthTableEntry::Any,
    }
}

fn report(n: &N, ids: &[usize]) -> String {
    format!("ok {} tt={} wf={}", ser(n).replace(' ', "_"), tt_of(n, ids), if wf(n, None, ids) { 1 } else { 0 })
}

/// op <name> <k> <id0,..> <ntt> <tt...> [extra tokens...]
fn run_op(tok: &[&str]) -> String {
    let env = BDDEnv::<NamedSymbol>::new();
    run_op_in(&env, tok, false)
}

/// every node reachable from n is the node stored in the environment's table (pointer identity)
fn all_shared(env: &BDDEnv<NamedSymbol>, n: &N) -> bool {
    let own = match env.nodes.borrow().get(n.as_ref()) {
        Some(e) => Rc::ptr_eq(e, n),
        None => false,
    };
    own && match n.as_ref() {
        BDD::Choice(t, _, f) => all_shared(env, t) && all_shared(env, f),
        _ => true,
    }
}

fn run_op_in(env: &BDDEnv<NamedSymbol>, tok: &[&str], share: bool) -> String {
    run_op_full(env, tok, share, true)
}

/// `own` = false: the operands are canonical diagrams that are NOT owned by this environment (as diagrams coming from
/// another environment, from `BDD::from`, or built with the public constructors are)
fn run_op_full(env: &BDDEnv<NamedSymbol>, tok: &[&str], share: bool, own: bool) -> String {
    let name = tok[0];
    let k: usize = tok[1].parse().unwrap();
    let ids: Vec<usize> = if k == 0 { vec![] } else { tok[2].split(',').map(|x| x.parse().unwrap()).collect() };
    let ntt: usize = tok[3].parse().unwrap();
    let ops: Vec<N> = (0..ntt)
        .map(|i| {
            let raw = canon(&parse_tt(tok[4 + i]), &ids);
            if own {
                intern(env, &raw)
            } else {
                raw
            }
        })
        .collect();
    let ex = &tok[4 + ntt..];
    let before: Vec<String> = ops.iter().map(ser).collect();
    let res: N = match name {
        "and" => env.and(ops[0].clone(), ops[1].clone()),
        "or" => env.or(ops[0].clone(), ops[1].clone()),
        "not" => env.not(ops[0].clone()),
        "implies" => env.implies(ops[0].clone(), ops[1].clone()),
        "eq" => env.eq(ops[0].clone(), ops[1].clone()),
        "xor" => env.xor(ops[0].clone(), ops[1].clone()),
        "nor" => env.nor(ops[0].clone(), ops[1].clone()),
        "nand" => env.nand(ops[0].clone(), ops[1].clone()),
        "ite" => env.ite(ops[0].clone(), ops[1].clone(), ops[2].clone()),
        "var" => env.var(sym(ex[0].parse().unwrap())),
        "const" => env.mk_const(ex[0] == "1"),
        "exists" | "all" | "exists_impl" => {
            let vs: Vec<NamedSymbol> = if ex.is_empty() || ex[0] == "-" { vec![] } else { ex[0].split(',').map(|x| sym(x.parse().unwrap())).collect() };
            match name {
                "exists" => env.exists(vs, ops[0].clone()),
                "all" => env.all(vs, ops[0].clone()),
                _ => env.exists_impl(&vs[0], ops[0].clone()),
            }
        }
        "aln" | "amn" | "exn" => {
            let n: i64 = ex[0].parse().unwrap();
            match name {
                "aln" => env.aln(&ops, n),
                "amn" => env.amn(&ops, n),
                _ => env.exn(&ops, n),
            }
        }
        "count_leq" | "count_lt" | "count_geq" | "count_gt" | "count_eq" => {
            let na: usize = ex[0].parse().unwrap();
            let (a, b) = ops.split_at(na);
            match name {
                "count_leq" => env.count_leq(a, b),
                "count_lt" => env.count_lt(a, b),
                "count_geq" => env.count_geq(a, b),
                "count_gt" => env.count_gt(a, b),
                _ => env.count_eq(a, b),
            }
        }
        "model" => env.model(ops[0].clone()),
        "retain" => env.retain_choice_bottom_up(ops[0].clone(), filter_of(ex[0])),
        "infer" => {
            let (a, b) = env.infer(ops[0].clone(), sym(ex[0].parse().unwrap()));
            return format!("ok infer {} {}", a, b);
        }
        "fp" => {
            // transformer given as table: for each of the 2^(2^k) argument functions (by truth table, as index) the
            // result truth table; only k <= 2.  ex[0] = comma separated list of result tts indexed by argument tt value
            let table: Vec<Vec<bool>> = ex[0].split(',').map(parse_tt).collect();
            let ids2 = ids.clone();
            let envr = env;
            let steps = std::cell::Cell::new(0usize);
            let r = env.fp(ops[0].clone(), |x| {
                steps.set(steps.get() + 1);
                if steps.get() > 64 {
                    panic!("fp: no convergence within 64 steps");
                }
                let t = tt_of(&x, &ids2);
                let idx = usize::from_str_radix(&t, 2).unwrap();
                intern(envr, &canon(&table[idx], &ids2))
            });
            r
        }
        "clean" => env.clean(ops[0].clone()),
        "find" => env.find(&ops[0]),
        "simplify" => env.simplify(&ops[0]),
        _ => return format!("error unknown op {}", name),
    };
    let after: Vec<String> = ops.iter().map(ser).collect();
    let mut all_ids = ids.clone();
    for e in ex.iter().take(1) {
        for x in e.split(',') {
            if let Ok(v) = x.parse::<usize>() {
                if !all_ids.contains(&v) && (name == "var") {
                    all_ids.push(v);
                }
            }
        }
    }
    all_ids.sort();
    let sh = if share { format!(" shared={}", if all_shared(env, &res) { 1 } else { 0 }) } else { String::new() };
    format!("{} unchanged={}{}", report(&res, &all_ids), if before == after { 1 } else { 0 }, sh)
}

fn debug_tree(t: &SymbolicBDD) -> String {
    format!("{:?}", t).replace(' ', "")
}

/// formula <hex text> [ordering: name:id,name:id...]  -> parse + eval through the public API
fn run_formula(tok: &[&str]) -> String {
    let text = unhex(tok[0]);
    let ordering: Option<Vec<NamedSymbol>> = if tok.len() > 1 && tok[1] != "-" {
        Some(
            tok[1]
                .split(',')
                .map(|p| {
                    let mut it = p.split(':');
                    let name = it.next().unwrap().to_string();
                    let id: usize = it.next().unwrap().parse().unwrap();
                    NamedSymbol { name: Rc::new(name), id }
                })
                .collect(),
        )
    } else {
        None
    };
    let mode = if tok.len() > 2 { tok[2] } else { "eval" };
    let mut ord_ids: Vec<usize> = ordering.as_ref().map(|o| o.iter().map(|v| v.id).collect()).unwrap_or_default();
    ord_ids.sort();
    let mut rd = io::BufReader::new(&text[..]);
    match ParsedFormula::new(&mut rd, ordering) {
        Err(e) => format!("err {}", e.to_string().replace(' ', "_")),
        Ok(pf) => {
            let vars: Vec<String> = pf.vars.iter().map(|v| format!("{}:{}", v.name, v.id)).collect();
            let free: Vec<String> = pf.free_vars.iter().map(|v| format!("{}:{}", v.name, v.id)).collect();
            if mode == "parse" {
                return format!("ok tree={} vars={} free={}", debug_tree(&pf.bdd), vars.join(","), free.join(","));
            }
            if mode == "evalconst" {
                let r = pf.eval();
                return format!("ok {}", if r.is_false() { "constfalse" } else { "nonfalse" });
            }
            if mode == "evalfree" {
                // free-variable report plus: does the evaluated diagram mention only free variables?
                let r = pf.eval();
                let fids: Vec<usize> = pf.free_vars.iter().map(|v| v.id).collect();
                fn only(n: &N, ids: &[usize]) -> bool {
                    match n.as_ref() {
                        BDD::Choice(t, s, f) => ids.contains(&s.id) && only(t, ids) && only(f, ids),
                        _ => true,
                    }
                }
                return format!("ok vars={} free={} support={}", vars.join(","), free.join(","), if only(&r, &fids) { 1 } else { 0 });
            }
            if mode == "evaltwice" {
                // the same formula evaluated twice in its environment: the second answer is reported
                let _first = pf.eval();
                let r = pf.eval();
                return format!(
                    "ok tt={} wf={} free={} dia={}",
                    tt_of(&r, &ord_ids),
                    if wf(&r, None, &ord_ids) { 1 } else { 0 },
                    free.join(","),
                    ser(&r).replace(' ', "_")
                );
            }
            if mode == "evalall" {
                // value of the evaluated diagram under every assignment of the ordering's ids (ascending id order)
                let r = pf.eval();
                return format!(
                    "ok tt={} wf={} free={} dia={}",
                    tt_of(&r, &ord_ids),
                    if wf(&r, None, &ord_ids) { 1 } else { 0 },
                    free.join(","),
                    ser(&r).replace(' ', "_")
                );
            }
            let r = pf.eval();
            let ids: Vec<usize> = pf.free_vars.iter().map(|v| v.id).collect();
            let allids: Vec<usize> = pf.vars.iter().map(|v| v.id).collect();
            let idx: Vec<String> = pf.free_vars.iter().map(|v| pf.to_free_index(v).to_string()).collect();
            format!(
                "ok tree={} vars={} free={} tt={} wf={} support_in_free={} dia={} idx={}",
                debug_tree(&pf.bdd),
                vars.join(","),
                free.join(","),
                tt_of(&r, &ids),
                if wf(&r, None, &allids) { 1 } else { 0 },
                if wf(&r, None, &ids) { 1 } else { 0 },
                ser(&r).replace(' ', "_"),
                idx.join(",")
            )
        }
    }
}

/// tokens <hex text> <ordering name:id,.. | ->  : the token sequence of the text
fn run_tokens(tok: &[&str]) -> String {
    let text = unhex(tok[0]);
    let ordering: Option<Vec<NamedSymbol>> = if tok.len() > 1 && tok[1] != "-" {
        Some(
            tok[1]
                .split(',')
                .map(|p| {
                    let mut it = p.split(':');
                    let name = it.next().unwrap().to_string();
                    let id: usize = it.next().unwrap().parse().unwrap();
                    NamedSymbol { name: Rc::new(name), id }
                })
                .collect(),
        )
    } else {
        None
    };
    let mut rd = io::BufReader::new(&text[..]);
    match SymbolicBDD::tokenize(&mut rd, ordering) {
        Err(e) => format!("err {}", e.to_string().replace(' ', "_")),
        Ok(ts) => {
            let parts: Vec<String> = ts
                .iter()
                .map(|t| match t {
                    SymbolicBDDToken::Var(v) => format!("Var({}:{})", v.name, v.id),
                    SymbolicBDDToken::Countable(n) => format!("Countable({})", n),
                    SymbolicBDDToken::Reference(r) => format!("Reference({})", r),
                    other => format!("{:?}", other),
                })
                .collect();
            format!("ok {}", parts.join(" "))
        }
    }
}

/// set ops on BDDSet (C19): set <bits> <script>, script tokens: iA:<n> iB:<n> uAB uAA uBA nAB (intersect) cAB (complement)
/// eA (empty) UA (universe) qA:<n> (contains) ; prints membership vectors of A and B after each step
fn run_set(tok: &[&str]) -> String {
    let bits: usize = tok[0].parse().unwrap();
    let env = Rc::new(BDDEnv::<usize>::new());
    let a = BDDSet::with_env(bits, &env);
    let b = BDDSet::with_env(bits, &env);
    let mut out = String::new();
    let member = |s: &BDDSet, x: usize| -> bool {
        // membership defined on the diagram: element x is the cube with variable i true iff bit i of x is 0
        let mut n = s.bdd.borrow().clone();
        loop {
            let next = match n.as_ref() {
                BDD::True => return true,
                BDD::False => return false,
                BDD::Choice(t, v, f) => {
                    if (x >> *v) & 1 == 0 {
                        t.clone()
                    } else {
                        f.clone()
                    }
                }
            };
            n = next;
        }
    };
    for step in &tok[1..] {
        let (op, arg) = match step.find(':') {
            Some(p) => (&step[..p], step[p + 1..].parse::<usize>().unwrap_or(0)),
            None => (&step[..], 0usize),
        };
        let pick = |c: char| if c == 'A' { &a } else { &b };
        let cs: Vec<char> = op.chars().collect();
        let mut q = String::new();
        match cs[0] {
            'i' => {
                pick(cs[1]).insert(arg);
            }
            'u' => {
                pick(cs[1]).union(pick(cs[2]));
            }
            'n' => {
                pick(cs[1]).intersect(pick(cs[2]));
            }
            'c' => {
                pick(cs[1]).complement(pick(cs[2]));
            }
            'e' => {
                pick(cs[1]).empty();
            }
            'U' => {
                pick(cs[1]).universe();
            }
            'q' => {
                q = format!("q={}", if pick(cs[1]).contains(arg) { 1 } else { 0 });
            }
            _ => return format!("error step {}", step),
        }
        let ma: String = (0..(1usize << bits)).map(|x| if member(&a, x) { '1' } else { '0' }).collect();
        let mb: String = (0..(1usize << bits)).map(|x| if member(&b, x) { '1' } else { '0' }).collect();
        out.push_str(&format!(" [{} A={} B={} {}]", step, ma, mb, q));
    }
    format!("ok{}", out)
}

fn main() {
    panic::set_hook(Box::new(|_| {}));
    let stdin = io::stdin();
    let stdout = io::stdout();
    for line in stdin.lock().lines() {
        let line = line.unwrap();
        let tok: Vec<&str> = line.split_whitespace().collect();
        if tok.is_empty() {
            continue;
        }
        let res = panic::catch_unwind(|| match tok[0] {
            "op" => run_op(&tok[1..]),
            "rawop" => {
                let env = BDDEnv::<NamedSymbol>::new();
                run_op_full(&env, &tok[1..], false, false)
            }
            "hash2env" => {
                // the same function built by the library in two environments: the diagrams must compare and hash equal
                let k: usize = tok[1].parse().unwrap();
                let ids: Vec<usize> = tok[2].split(',').map(|x| x.parse().unwrap()).collect();
                let tt = parse_tt(tok[3]);
                let build = |env: &BDDEnv<NamedSymbol>| -> N {
                    // disjunction of minterms through the public operations
                    let mut acc = env.mk_const(false);
                    for (j, b) in tt.iter().enumerate() {
                        if *b {
                            let mut term = env.mk_const(true);
                            for i in 0..k {
                                let v = env.var(sym(ids[i]));
                                let lit = if (j >> (k - 1 - i)) & 1 == 1 { v } else { env.not(v) };
                                term = env.and(term, lit);
                            }
                            acc = env.or(acc, term);
                        }
                    }
                    acc
                };
                let e1 = BDDEnv::<NamedSymbol>::new();
                let e2 = BDDEnv::<NamedSymbol>::new();
                let _noise = e2.var(sym(ids[0] + 1000));
                let a = build(&e1);
                let b = build(&e2);
                format!("ok eq={} hasheq={}", if a == b { 1 } else { 0 }, if a.get_hash() == b.get_hash() { 1 } else { 0 })
            }
            "symhash" => {
                // two symbols with the same id and different names: equal (by the crate's Eq) values must hash equally
                let id: usize = tok[1].parse().unwrap();
                let a = NamedSymbol { name: Rc::new(tok[2].to_string()), id };
                let b = NamedSymbol { name: Rc::new(tok[3].to_string()), id };
                let na: BDD<NamedSymbol> = BDD::Choice(Rc::new(BDD::True), a.clone(), Rc::new(BDD::False));
                let nb: BDD<NamedSymbol> = BDD::Choice(Rc::new(BDD::True), b.clone(), Rc::new(BDD::False));
                format!("ok eq={} hasheq={}", if na == nb { 1 } else { 0 }, if na.get_hash() == nb.get_hash() { 1 } else { 0 })
            }
            "share" => {
                let env = BDDEnv::<NamedSymbol>::new();
                run_op_in(&env, &tok[1..], true)
            }
            "seq" => {
                // seq op ... ;; op ...   : the operations share one environment; the last answer is reported
                let env = BDDEnv::<NamedSymbol>::new();
                let mut last = String::from("error empty");
                for part in tok[1..].split(|t| *t == ";;") {
                    if part.len() > 1 && part[0] == "op" {
                        last = run_op_in(&env, &part[1..], false);
                    }
                }
                last
            }
            "formula" => run_formula(&tok[1..]),
            "tokens" => run_tokens(&tok[1..]),
            "set" => run_set(&tok[1..]),
            _ => "error unknown command".to_string(),
        });
        let ans = match res {
            Ok(s) => s,
            Err(e) => {
                let msg = if let Some(s) = e.downcast_ref::<String>() {
                    s.clone()
                } else if let Some(s) = e.downcast_ref::<&str>() {
                    s.to_string()
                } else {
                    "?".to_string()
                };
                format!("panic {}", msg.replace(' ', "_").replace('\n', "_"))
            }
        };
        let mut o = stdout.lock();
        writeln!(o, "{}", ans).unwrap();
        o.flush().unwrap();
    }
}
